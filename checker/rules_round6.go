package main

// Rules added after the fourth independent seeding round (a one-token slip, a plausible
// "improvement", an order / coupling change per property).

import (
	"fmt"
	"go/token"
	"go/types"
	"strings"

	"golang.org/x/tools/go/ssa"
)

// ruleRestartNotBehindStopping (C19.R10 / C01.R15): a lost or failed trusted connection leads to a reconnect: no call to
// Node.restart sits behind an `isStopping()==true` edge (restart itself does nothing while the node
// is stopping, so such a call is dead and the loss of the connection goes unanswered).
func (c *Check) ruleRestartNotBehindStopping(rule string) {
	n := 0
	for _, fn := range c.P.FuncsIn("spynode") {
		for _, s := range callsTo(fn, "(*spynode.Node).restart") {
			n++
			stopping := anyEdge(
				callEdge(true, -1, nil, "(*spynode.Node).isStopping"),
				boolEdge(func(v ssa.Value) bool {
					f := anyFieldLoad(v)
					return f != nil && f == c.P.Field("spynode", "Node", "stopping")
				}, true),
			)
			// dominated by a stopping==true edge: every path to the call crosses one
			ok, _ := mustPass(s.Instr, stopping)
			c.Decide(!ok, rule, fmt.Sprintf("%s#restart-reachable-while-running@%d", c.P.Key(fn), n), s.Pos(), "edge-cutset", nil,
				"the restart request is reachable while the node is not stopping",
				"Node.restart is called only behind isStopping()==true, where restart does nothing: the lost connection is never followed by a reconnect")
			c.Touch(fn)
		}
	}
	c.Min(rule, "calls to Node.restart", n, 5)
}

// ruleHeadersRoutedByRequestHeight (C16.R12): a Headers response is routed to the get-headers call whose requested height
// it echoes: the router compares the pending request's height with the message's RequestHeight
// field (StartHeight differs from it for requests relative to the tip).
func (c *Check) ruleHeadersRoutedByRequestHeight(rule string) {
	fn := c.Fn(rule, "client.(*RemoteClient).handleRequestResponse")
	fReq := c.P.Field("client", "request", "height")
	fEcho := c.P.Field("client", "Headers", "RequestHeight")
	if fn == nil {
		return
	}
	if fReq == nil || fEcho == nil {
		c.Undecided(rule, "anchor:client.request.height / client.Headers.RequestHeight", fn.Pos(), "fields not found")
		return
	}
	hdrT := c.P.NamedType("client", "Headers")
	n := 0
	for _, b := range fn.Blocks {
		iff, ok := lastIf(b)
		if !ok {
			continue
		}
		bin, ok := normCond(iff.Cond).V.(*ssa.BinOp)
		if !ok || (bin.Op != token.EQL && bin.Op != token.NEQ) {
			continue
		}
		x, y := bin.X, bin.Y
		if !mentionsField(x, fReq) {
			x, y = y, x
		}
		if !mentionsField(x, fReq) {
			continue
		}
		// the other side: a field of a *Headers message
		var fld *types.Var
		for _, r := range rootsAll(y) {
			if fa, ok := r.(*ssa.FieldAddr); ok {
				if p, ok := fa.X.Type().Underlying().(*types.Pointer); ok && hdrT != nil && types.Identical(p.Elem(), hdrT) {
					fld = fieldOfAddr(fa)
				}
			}
		}
		if fld == nil {
			continue
		}
		n++
		c.Decide(fld == fEcho, rule, "client.(*RemoteClient).handleRequestResponse#headers-routed-by-RequestHeight", bin.Pos(), "field agreement", []string{"compared with Headers." + fld.Name()},
			"the pending get-headers request is matched with the height the response echoes",
			"a Headers response is matched to pending requests by Headers."+fld.Name()+" instead of the echoed RequestHeight: a request relative to the tip (-1) never gets its response and another call's request takes it")
	}
	c.Min(rule, "height comparisons for Headers responses", n, 1)
}

// ruleWriteOnlyWhatSerialized (C15.R6 / C11.R8): SaveTxState hands the buffer to the store only on the success edge of
// serialising into it (a record that failed to serialise must not overwrite the stored one).
func (c *Check) ruleWriteOnlyWhatSerialized(rule string) {
	fn := c.Fn(rule, "storage.SaveTxState")
	if fn == nil {
		return
	}
	n := 0
	for _, s := range sitesIn(fn) {
		if !(s.CC.IsInvoke() && s.CC.Method.Name() == "Write") {
			continue
		}
		n++
		ok, w := mustPass(s.Instr, errNilEdge(func(call *ssa.Call) bool { return calleeObjName(&call.Call) == "Serialize" }, true))
		c.Decide(ok, rule, "storage.SaveTxState#write-only-after-serialize-ok", s.Pos(), "edge-cutset", w,
			"the store is written only after the record serialised without error",
			"SaveTxState writes to the store on a path where serialising the record failed (or was not tested yet): the stored record is replaced by a partial / empty one")
	}
	c.Min(rule, "store writes in SaveTxState", n, 1)
}

// ruleRequestTimeOnlyWhenRequesting (C14.R11): MemPool.AddRequest (re)starts a txid's request window only when it answers
// "request it": every write of memPool.requests[txid] is behind "never requested" or "the earlier
// request is older than the window". A write on the wait path slides the window for as long as
// anybody keeps announcing the tx.
func (c *Check) ruleRequestTimeOnlyWhenRequesting(rule string) {
	fn := c.Fn(rule, "state.(*MemPool).AddRequest")
	f := c.P.Field("state", "MemPool", "requests")
	if fn == nil || f == nil {
		return
	}
	isRequested := func(v ssa.Value) bool {
		ex, ok := stripConv(v).(*ssa.Extract)
		if !ok || ex.Index != 1 {
			return false
		}
		lk, ok := ex.Tuple.(*ssa.Lookup)
		return ok && loadOfField(lk.X, f) != nil
	}
	old := func(iff *ssa.If, br int) bool {
		bin, ok := normCond(iff.Cond).V.(*ssa.BinOp)
		if !ok {
			return false
		}
		isAge := false
		var look func(v ssa.Value, d int)
		look = func(v ssa.Value, d int) {
			if d > 5 || v == nil {
				return
			}
			if call, ok := stripConv(v).(*ssa.Call); ok {
				switch calleeShort(&call.Call) {
				case "(time.Time).Sub", "time.Since":
					isAge = true
					return
				}
				for _, a := range call.Call.Args {
					look(a, d+1)
				}
			}
		}
		look(bin.X, 0)
		look(bin.Y, 0)
		if !isAge {
			return false
		}
		// the edge on which the age is above the limit
		r, ok := edgeRel(iff, br)
		if !ok {
			return false
		}
		_, leftConst := r.X.(*ssa.Const)
		if leftConst {
			return r.Op == token.LSS || r.Op == token.LEQ
		}
		return r.Op == token.GTR || r.Op == token.GEQ
	}
	guard := anyEdge(boolEdge(isRequested, false), old)
	n := 0
	for _, ac := range fieldAccesses(fn, map[*types.Var]bool{f: true}) {
		if ac.Kind != "mapupdate" {
			continue
		}
		n++
		ok, w := mustPass(ac.Instr, guard)
		c.Decide(ok, rule, "state.(*MemPool).AddRequest#request-time-written-only-when-requesting", ac.Instr.Pos(), "edge-cutset", w,
			"the request time is written only behind 'never requested' or 'older than the window'",
			"MemPool.AddRequest writes the request time on a path that answers 'wait': the window slides with every announcement, the request never expires and no other peer is ever asked")
	}
	c.Min(rule, "writes of the request time in AddRequest", n, 1)
}

// ruleLatestHeadersStart (C09.R16): for a request relative to the tip (height -1) GetHeaders starts at
// LastHeight() - maxCount + 1, clamped to 0 (so that the maxCount headers end at the tip).
func (c *Check) ruleLatestHeadersStart(rule string) {
	fn := c.Fn(rule, "spynode.(*Node).GetHeaders")
	if fn == nil {
		return
	}
	maxCount := paramAt(fn, "maxCount", 3)
	if maxCount == nil {
		return
	}
	n := 0
	for _, b := range fn.Blocks {
		for _, in := range b.Instrs {
			bo, ok := in.(*ssa.BinOp)
			if !ok || (bo.Op != token.ADD && bo.Op != token.SUB) {
				continue
			}
			l := linOfValue(bo)
			// an expression over LastHeight() and maxCount (outermost only: not a sub-expression of another)
			hasLast, hasMax := false, false
			for t, cf := range l.terms {
				if cl, ok := stripConv(l.atoms[t]).(*ssa.Call); ok && strings.HasSuffix(calleeShort(&cl.Call), "BlockRepository).LastHeight") && cf == 1 {
					hasLast = true
				}
				if stripConv(l.atoms[t]) == ssa.Value(maxCount) && cf == -1 {
					hasMax = true
				}
			}
			if !hasLast || !hasMax || len(l.terms) != 2 {
				continue
			}
			outer := true
			for _, r := range *bo.Referrers() {
				if b2, ok := r.(*ssa.BinOp); ok && (b2.Op == token.ADD || b2.Op == token.SUB) {
					outer = false
				}
			}
			if !outer {
				continue
			}
			n++
			c.Decide(l.k == 1, rule, "spynode.(*Node).GetHeaders#latest-start-is-tip-maxCount+1", bo.Pos(), "value flow", []string{"start for the latest headers: " + l.String()},
				"the latest maxCount headers start at LastHeight() - maxCount + 1",
				"for a request for the latest headers the start height is not LastHeight() - maxCount + 1: the headers returned do not end at the tip (the tip is missing, or one header too few is returned)")
		}
	}
	if n == 0 {
		c.Ok(rule, "spynode.(*Node).GetHeaders#latest-start", fn.Pos(), "value flow", "start of the latest headers is not computed as LastHeight() - maxCount + k here (different form)")
	}
}

// ruleTruncationKeepsForkPoint (C01.R16 / C13.R13): ClearBlockRequestsAfter(hash) drops what was requested after the fork
// point and keeps the fork point itself: a truncation of a request list inside the loop that found
// the hash at index i is list[:i+1].
func (c *Check) ruleTruncationKeepsForkPoint(rule string) {
	fn := c.Fn(rule, "state.(*State).ClearBlockRequestsAfter")
	if fn == nil {
		return
	}
	n := 0
	for _, h := range loopHeadersOf(fn) {
		list := rangedSlice(h)
		if list == nil {
			continue
		}
		// the loop index: what the current element is read with
		var idx ssa.Value
		for b := range loopBody(h) {
			for _, in := range b.Instrs {
				if ia, ok := in.(*ssa.IndexAddr); ok && (ia.X == list || sameExpr(ia.X, list)) {
					idx = ia.Index
				}
			}
		}
		if idx == nil {
			continue
		}
		for _, x := range fn.Blocks {
			if !h.Dominates(x) {
				continue
			}
			for _, in := range x.Instrs {
				sl, ok := in.(*ssa.Slice)
				if !ok || sl.Low != nil || sl.High == nil || !(sl.X == list || sameExpr(sl.X, list) || sharesRoot(sl.X, list)) {
					continue
				}
				stored := false
				for _, r := range *sl.Referrers() {
					if _, isSt := r.(*ssa.Store); isSt {
						stored = true
					}
				}
				if !stored {
					continue
				}
				k, isC := linOfValue(sl.High).minus(linOfValue(idx)).isConst()
				if !isC {
					// the index handed out of a search (`found index or -1`): the join of the loop index and -1
					hl := linOfValue(sl.High)
					if len(hl.terms) == 1 {
						for t, cf := range hl.terms {
							if fi := foundIndexOfAt(hl.atoms[t], sl); cf == 1 && fi != nil {
								if d, ok := linOfValue(fi).minus(linOfValue(idx)).isConst(); ok {
									k, isC = hl.k+d, true
								}
							}
						}
					}
				}
				if !isC {
					continue
				}
				n++
				c.Decide(isC && k == 1, rule, fmt.Sprintf("state.(*State).ClearBlockRequestsAfter#truncation-keeps-fork-point@%d", n), sl.Pos(), "value flow", []string{"list[:" + linOfValue(sl.High).String() + "]"},
					"the list is cut right after the fork point",
					"the request list is not cut right after the fork point (list[:i+1]): the fork point itself is dropped, so every header of the new branch is refused with a wrong previous hash (or entries of the old branch stay)")
			}
		}
	}
	c.Min(rule, "truncations at the fork point in ClearBlockRequestsAfter", n, 2)
}

// ruleCleanupAlwaysForwards (C14.R12): Node.CleanupBlock hands the block's txids to the trusted tracker and to every
// untrusted node on every path that returns success (no early return in front of it).
func (c *Check) ruleCleanupAlwaysForwards(rule string) {
	fn := c.Fn(rule, "spynode.(*Node).CleanupBlock")
	if fn == nil {
		return
	}
	var trusted []ssa.Instruction
	for _, s := range callsTo(fn, "(*state.TxTracker).RemoveList") {
		trusted = append(trusted, s.Instr)
	}
	for _, ret := range returnsOf(fn) {
		if isErrorReturnBlock(ret.Block()) || (fn.Recover != nil && ret.Block() == fn.Recover) {
			continue
		}
		ok := len(trusted) > 0
		var w []string
		if ok {
			ok, w = alwaysPrecededBy(ret, trusted)
		}
		c.Decide(ok, rule, "spynode.(*Node).CleanupBlock#trusted-tracker-on-every-success-path", ret.Pos(), "must-pass-through", w,
			"every successful return is preceded by forwarding the txids to the trusted tracker",
			"Node.CleanupBlock can return successfully without having forwarded the block's txids to the trackers: confirmed announcements stay tracked and are requested again after the window")
	}
}

// ruleAccumulatorNeverAliasesIndex (C05.R13): the conflict list accumulated in AddTransaction is built only by the
// accumulating helper / append: the value carried round the input loop is never a list read from
// the outpoint index itself (appending to such an alias writes into the index's backing array).
func (c *Check) ruleAccumulatorNeverAliasesIndex(rule string) {
	fn := c.Fn(rule, "state.(*MemPool).AddTransaction")
	fInputs := c.P.Field("state", "MemPool", "inputs")
	if fn == nil || fInputs == nil {
		return
	}
	n := 0
	for _, h := range loopHeadersOf(fn) {
		body := loopBody(h)
		for _, in := range h.Instrs {
			phi, ok := in.(*ssa.Phi)
			if !ok {
				break
			}
			if _, isSl := phi.Type().Underlying().(*types.Slice); !isSl {
				continue
			}
			// only the accumulator: a phi that receives a result of the accumulating helper
			isAcc := false
			for i, e := range phi.Edges {
				if !body[h.Preds[i]] {
					continue
				}
				for _, src := range flattenPhiWithin(e, body, h) {
					if call, ok := src.(*ssa.Call); ok && (calleeShort(&call.Call) == "state.appendIfNotContained" || builtinCall(call, "append") != nil) {
						isAcc = true
					}
				}
			}
			if !isAcc {
				continue
			}
			n++
			good := true
			var wit []string
			for i, e := range phi.Edges {
				if !body[h.Preds[i]] {
					continue
				}
				for _, src := range flattenPhiWithin(e, body, h) {
					if src == ssa.Value(phi) {
						continue
					}
					if call, ok := src.(*ssa.Call); ok && (calleeShort(&call.Call) == "state.appendIfNotContained" || builtinCall(call, "append") != nil) {
						continue
					}
					// a list taken from the index
					for _, r := range rootsAll(src) {
						if lk, ok := r.(*ssa.Lookup); ok && loadOfField(lk.X, fInputs) != nil {
							good = false
							wit = append(wit, "the carried list can be the index's own list at "+c.P.Pos(src.Pos()))
						}
					}
				}
			}
			c.Decide(good, rule, "state.(*MemPool).AddTransaction#conflict-list-never-aliases-the-index", phi.Pos(), "value flow", wit,
				"the accumulated conflict list is always a list of its own",
				"the conflict list carried round the input loop can be a list read from the outpoint index (an alias): appending conflicts of a later input overwrites entries of that outpoint's spender list")
		}
	}
	c.Min(rule, "accumulated lists in AddTransaction", n, 1)
}

var _ = strings.HasPrefix

// rulePendingSyncOnlyWhenPeerHasNoMore (C01.R17): the header handler declares the header sync finished (SetPendingSync) only for a
// reply that shows the peer has nothing beyond our tip: an empty headers message, or a single
// header (the reply that repeats our last hash). "Nothing new in this message" is not enough - a
// duplicated or late reply made of known headers would end the header sync while the peer has more.
func (c *Check) rulePendingSyncOnlyWhenPeerHasNoMore(rule string) {
	n := 0
	for _, fn := range c.P.FuncsIn("handlers") {
		for _, s := range callsTo(fn, "(*state.State).SetPendingSync") {
			n++
			guard := func(iff *ssa.If, br int) bool {
				r, ok := edgeRel(iff, br)
				if !ok || r.Op != token.EQL {
					return false
				}
				k, isC := constInt(r.Y)
				l := lenOf(r.X)
				return isC && (k == 0 || k == 1) && l != nil && mentionsFieldNamed(l, "Headers")
			}
			ok, w := mustPass(s.Instr, guard)
			c.Decide(ok, rule, c.P.Key(fn)+"#pending-sync-only-for-empty-or-single-header-reply", s.Pos(), "edge-cutset", w,
				"the header sync is declared finished only for an empty reply or a reply of one header",
				"the header sync is declared finished (SetPendingSync) for a reply that is neither empty nor a single header: a duplicated or late reply made of known headers ends the header sync while the peer still has more, in-sync is announced early and the node stops polling")
			c.Touch(fn)
		}
	}
	c.Min(rule, "SetPendingSync calls in handlers", n, 1)
}

// rulePopMovesLastSavedHash (C01.R18 / C13.R14): State.NextBlock, when it hands a block to the processor, moves the state's
// last saved hash to that block's hash in the same critical section (before the entry is dropped
// from the requested list). Between the pop and the repository add the block is in no list; the
// header handler links the next announcement to the state's last hash, which must therefore
// already be this block.
func (c *Check) rulePopMovesLastSavedHash(rule string) {
	fn := c.Fn(rule, "state.(*State).NextBlock")
	fLast := c.P.Field("state", "State", "lastSavedHash")
	fReq := c.P.Field("state", "State", "blocksRequested")
	fHash := c.P.Field("state", "requestedBlock", "hash")
	if fn == nil {
		return
	}
	if fLast == nil || fReq == nil || fHash == nil {
		c.Undecided(rule, "anchor:state.State.lastSavedHash/blocksRequested, requestedBlock.hash", fn.Pos(), "fields not found")
		return
	}
	var stores []ssa.Instruction
	for _, st := range storesToField(fn, fLast) {
		if mentionsField(st.Val, fHash) && mentionsField(st.Val, fReq) {
			stores = append(stores, st)
		}
	}
	n := 0
	for _, st := range storesToField(fn, fReq) {
		sl, ok := st.Val.(*ssa.Slice)
		if !ok || sl.Low == nil {
			continue
		}
		n++
		okP := len(stores) > 0
		var w []string
		if okP {
			okP, w = alwaysPrecededBy(st, stores)
		}
		c.Decide(okP, rule, "state.(*State).NextBlock#last-saved-hash-moves-with-the-pop", st.Pos(), "must-pass-through", w,
			"the popped block's hash becomes the state's last saved hash before the entry is dropped",
			"State.NextBlock drops the head of the requested list without first recording its hash as the last saved hash: until the block is in the repository no list knows it, so the header announcing its child is dropped as unknown and an in-sync node (which does not poll) stalls")
	}
	c.Min(rule, "pops of the requested list in NextBlock", n, 1)
}

// ruleParentFetchedPerInput (C03.R18): in fetchSpentOutputs the stored parent whose outputs are indexed for an input is
// the result of fetching that input's parent in the same iteration - never a value carried over
// from an earlier iteration (a cache of "the last parent" hands out another tx's outputs when the
// lookup in between found nothing).
func (c *Check) ruleParentFetchedPerInput(rule string) {
	fn := c.Fn(rule, "spynode.fetchSpentOutputs")
	if fn == nil {
		return
	}
	n := 0
	for _, b := range fn.Blocks {
		for _, in := range b.Instrs {
			ia, ok := in.(*ssa.IndexAddr)
			if !ok {
				continue
			}
			sl, ok := ia.X.Type().Underlying().(*types.Slice)
			if !ok || !strings.HasSuffix(sl.Elem().String(), "wire.TxOut") || !mentionsFieldNamed(ia.X, "TxOut") {
				continue
			}
			h := loopHeaderOf(b)
			if h == nil {
				continue
			}
			n++
			carried := false
			for _, r := range rootsAll(ia.X) {
				if phi, ok := r.(*ssa.Phi); ok && phi.Block() == h {
					carried = true
				}
			}
			fetched := derivesFromCall(ia.X, "storage.FetchTxState") != nil
			c.Decide(fetched && !carried, rule, fmt.Sprintf("spynode.fetchSpentOutputs#parent-fetched-in-this-iteration@%d", n), ia.Pos(), "provenance", nil,
				"the parent whose outputs are read was fetched for this input in this iteration",
				"the stored parent whose outputs are read for an input can be a value carried over from an earlier iteration (or is not the fetched state): an input gets an output of another parent")
		}
	}
	c.Min(rule, "reads of a stored parent's outputs in fetchSpentOutputs", n, 1)
}

// foundIndexOf: v is the result of a search that answers "index of the match or -1": a join whose inputs
// are the constant -1 and one other value; returns that value.
func foundIndexOf(v ssa.Value) ssa.Value { return foundIndexOfAt(v, nil) }

// foundIndexOfAt: as foundIndexOf for a use at instruction `at`: an earlier found-index variable merged in
// that is known to be -1 at the use (the use is behind `earlier == -1`: the first search found
// nothing and the variable was reused for the second) counts as the constant.
func foundIndexOfAt(v ssa.Value, at ssa.Instruction) ssa.Value {
	phi, ok := stripConv(v).(*ssa.Phi)
	if !ok {
		return nil
	}
	var other ssa.Value
	seen := map[ssa.Value]bool{}
	var walk func(p *ssa.Phi) bool
	walk = func(p *ssa.Phi) bool {
		if seen[p] {
			return true
		}
		seen[p] = true
		for _, e := range p.Edges {
			if k, isC := constInt(e); isC && k == -1 {
				continue
			}
			if p2, ok := e.(*ssa.Phi); ok && loopBody(p2.Block()) == nil {
				if at != nil {
					isMinus1 := func(iff *ssa.If, br int) bool {
						r, okr := edgeRel(iff, br)
						if !okr || r.Op != token.EQL {
							return false
						}
						if k, isC := constInt(r.Y); isC && k == -1 && stripConv(r.X) == ssa.Value(p2) {
							return true
						}
						return false
					}
					if behind, _ := mustPass(at, isMinus1); behind {
						continue
					}
				}
				// a plain join forwards values; a loop variable (header phi) is a value of its own
				if !walk(p2) {
					return false
				}
				continue
			}
			if other != nil && other != e {
				return false
			}
			other = e
		}
		return true
	}
	if !walk(phi) {
		return nil
	}
	return other
}
