package main

import (
	"fmt"
	"go/token"
	"go/types"
	"strings"

	"golang.org/x/tools/go/ssa"
)

// Rules added after the second independent seeding round (variants C/D/E). Each is a structural
// necessary condition of the property named in its comment; DESIGN.md section 8 lists which seeded
// change led to which rule.

// precededInIteration: every path from the innermost loop header of in to in executes one of
// events first (events in the same block before in count).
func precededInIteration(in ssa.Instruction, events []ssa.Instruction) (bool, []string) {
	h := loopHeaderOf(in.Block())
	if h == nil {
		return alwaysPrecededBy(in, events)
	}
	for _, e := range events {
		if e.Block() == in.Block() && instrIndex(e) < instrIndex(in) {
			return true, nil
		}
	}
	cut := map[*ssa.BasicBlock]bool{}
	for _, e := range events {
		if e.Block() != in.Block() {
			cut[e.Block()] = true
		}
	}
	if cut[h] {
		return true, nil
	}
	r, path := reachAvoid2(h, in.Block(), nil, cut)
	if !r {
		return true, nil
	}
	return false, pathWitness(in.Block().Parent(), path)
}

// isEmptyValue: v is a zero/empty value: nil, 0, false, x[:0], make(T, 0[, n]).
func isEmptyValue(v ssa.Value) bool {
	switch x := v.(type) {
	case *ssa.Const:
		if x.IsNil() {
			return true
		}
		if b, ok := isConstBool(x); ok {
			return !b
		}
		if k, ok := constInt(x); ok {
			return k == 0
		}
		return false
	case *ssa.Slice:
		if x.High == nil {
			return false
		}
		k, ok := constInt(x.High)
		return ok && k == 0
	case *ssa.MakeSlice:
		k, ok := constInt(x.Len)
		return ok && k == 0
	case *ssa.MakeMap:
		return true
	case *ssa.Convert:
		return isEmptyValue(x.X)
	case *ssa.ChangeType:
		return isEmptyValue(x.X)
	}
	return false
}

// ruleResetEmptiesRequestState (C01.R9): State.Reset – run on every reconnect – leaves no request
// state behind: each of the listed fields is stored an empty value.
func (c *Check) ruleResetEmptiesRequestState(rule string) {
	fn := c.Fn(rule, "state.(*State).Reset")
	if fn == nil {
		return
	}
	for _, name := range []string{"blocksRequested", "blocksToRequest", "pendingBlockSize", "isInSync", "headersRequested", "pendingSync", "handshakeComplete", "versionReceived"} {
		f := c.P.Field("state", "State", name)
		if f == nil {
			c.Undecided(rule, "anchor:state.State."+name, fn.Pos(), "field not found")
			continue
		}
		sts := storesToField(fn, f)
		ok := len(sts) > 0
		pos := fn.Pos()
		for _, st := range sts {
			pos = st.Pos()
			if !isEmptyValue(st.Val) {
				ok = false
			}
		}
		c.Decide(ok, rule, "state.(*State).Reset#empties-"+name, pos, "value shape", nil,
			"Reset stores an empty value", "State.Reset does not empty "+name+": request state of the previous connection survives the reconnect (queued blocks are never promoted, no poll is sent, the node stalls)")
	}
}

// ruleCursorStoreAfterAdmission (C02.R10): inside the header loop the last-hash cursor takes the
// hash of the current header only after that header was admitted in this iteration
// (checkStartHeight / AddBlockRequest); any other in-loop store must come from LastHash().
func (c *Check) ruleCursorStoreAfterAdmission(rule string) {
	fn := c.Fn(rule, "handlers.(*HeadersHandler).Handle")
	if fn == nil {
		return
	}
	cursor := headerCursor(fn)
	if cursor == nil {
		c.Undecided(rule, "anchor:Handle.lastHash-cursor", fn.Pos(), "no local initialised from state.LastHash() found")
		return
	}
	var admit []ssa.Instruction
	for _, s := range callsTo(fn, "(handlers.HeadersHandler).checkStartHeight", "(*state.State).AddBlockRequest") {
		admit = append(admit, s.Instr)
	}
	n := 0
	for _, r := range *cursor.Referrers() {
		st, ok := r.(*ssa.Store)
		if !ok || st.Addr != ssa.Value(cursor) || loopHeaderOf(st.Block()) == nil {
			continue
		}
		n++
		if derivesFromCall(st.Val, "(*state.State).LastHash") != nil || derivesFromCall(st.Val, "(*storage.BlockRepository).LastHash") != nil {
			c.Ok(rule, fmt.Sprintf("handlers.(*HeadersHandler).Handle#cursor-store@%d", n), st.Pos(), "provenance", "cursor refreshed from LastHash()")
			continue
		}
		ok2, w := precededInIteration(st, admit)
		c.Decide(ok2, rule, fmt.Sprintf("handlers.(*HeadersHandler).Handle#cursor-store@%d", n), st.Pos(), "same-iteration event order", w,
			"the cursor moves to this header only after the header was admitted in this iteration", "the loop-local last-hash cursor is moved to a header that was not admitted in this iteration (e.g. one that is merely already known): the following headers of the message are linked against it and appended although their parent is not the tip")
	}
	c.Min(rule, "in-loop cursor stores in Handle", n, 3)
}

// ruleOwnStateReadAfterGate (C03.R12): in processUnconfirmedTx the stored state of the tx itself is
// read only after the unconfirmed-repository gate (TxRepository.Add(…,-1)) was passed; that call
// serialises with block processing, a read before it can be stale.
func (c *Check) ruleOwnStateReadAfterGate(rule string) {
	fn := c.Fn(rule, "spynode.(*Node).processUnconfirmedTx")
	if fn == nil {
		return
	}
	var gate []ssa.Instruction
	for _, s := range callsTo(fn, "(*storage.TxRepository).Add") {
		a := s.CC.Args
		if k, isC := constInt(a[len(a)-1]); isC && k == -1 {
			gate = append(gate, s.Instr)
		}
	}
	hs := c.handlerInvokes(fn, "HandleTx")
	n := 0
	for _, h := range hs {
		arg := h.CC.Args[len(h.CC.Args)-1]
		for _, s := range callsTo(fn, "storage.FetchTxState") {
			call, ok := s.Instr.(*ssa.Call)
			if !ok || !derivesFromValue(arg, call) {
				continue
			}
			n++
			ok2, w := alwaysPrecededBy(call, gate)
			c.Decide(ok2 && len(gate) > 0, rule, "spynode.(*Node).processUnconfirmedTx#own-state-read-after-gate", call.Pos(), "path-typestate", w,
				"the tx's stored state is read after the unconfirmed-repository gate", "the stored state that decides new / already confirmed is read before TxRepository.Add(…,-1): block processing holds that lock while it classifies and saves the tx, so the decision can rest on a stale read and the tx is delivered as new twice")
		}
	}
	c.Min(rule, "own-state fetches feeding HandleTx", n, 1)
}

// ruleNoMakeLenThenAppend (C15.R5 / C04.R7): a slice made with a non-zero length is filled by
// index; appending to it leaves the made elements in front (decoded lists get leading zero
// elements, e.g. a merkle proof's duplicated indexes).
func (c *Check) ruleNoMakeLenThenAppend(rule string, scope ...string) {
	n := 0
	for _, fn := range c.P.FuncsIn(scope...) {
		for _, b := range fn.Blocks {
			for _, in := range b.Instrs {
				ms, ok := in.(*ssa.MakeSlice)
				if !ok {
					continue
				}
				if k, isC := constInt(ms.Len); isC && k == 0 {
					continue
				}
				n++
				// where does the made slice flow: stores into fields / locals
				bad := false
				var pos token.Pos
				var visit func(v ssa.Value, depth int)
				seen := map[ssa.Value]bool{}
				var targets []ssa.Value // addresses the slice was stored to
				visit = func(v ssa.Value, depth int) {
					if seen[v] || depth > 6 {
						return
					}
					seen[v] = true
					for _, r := range *v.Referrers() {
						switch x := r.(type) {
						case *ssa.Store:
							if x.Val == v {
								targets = append(targets, x.Addr)
							}
						case *ssa.Phi:
							visit(x, depth+1)
						case *ssa.ChangeType:
							visit(x, depth+1)
						case *ssa.Call:
							if builtinCall(x, "append") != nil && len(x.Call.Args) > 0 && x.Call.Args[0] == v {
								bad = true
								pos = x.Pos()
							}
						}
					}
				}
				visit(ms, 0)
				// appends whose first argument is a load of a target the made slice was stored to, reachable from the make
				for _, t := range targets {
					for _, b2 := range fn.Blocks {
						for _, in2 := range b2.Instrs {
							call, ok := in2.(*ssa.Call)
							if !ok || builtinCall(call, "append") == nil || len(call.Call.Args) == 0 {
								continue
							}
							u, ok := call.Call.Args[0].(*ssa.UnOp)
							if !ok || u.Op != token.MUL {
								continue
							}
							if sameAddr(u.X, t) && canFollow(ms, call) && !storeBetween(fn, t, ms, call) {
								bad = true
								pos = call.Pos()
							}
						}
					}
				}
				if bad {
					c.Bad(rule, fmt.Sprintf("%s#make-len-then-append", c.P.Key(fn)), pos, "value flow", nil,
						"a slice made with a non-zero length is appended to: the made (zero) elements stay in front of the decoded ones")
					c.Touch(fn)
				}
			}
		}
	}
	c.Ok(rule, "scope#make-len-then-append", token.NoPos, "value flow", "%d make([]T, n) sites with n != 0 examined in %s: none is appended to", n, strings.Join(scope, ","))
	c.Min(rule, "non-empty makes examined", n, 5)
}

// sameAddr: two address values denote the same location (same alloc, or the same field of the same base).
func sameAddr(a, b ssa.Value) bool {
	if a == b {
		return true
	}
	fa, ok1 := a.(*ssa.FieldAddr)
	fb, ok2 := b.(*ssa.FieldAddr)
	if ok1 && ok2 {
		return fa.Field == fb.Field && (fa.X == fb.X || sameExpr(fa.X, fb.X))
	}
	return false
}

// storeBetween: some store to addr other than the one fed by `from` can reach `to` after `from`
// (the location was re-assigned, e.g. reset to an empty slice, before the append).
func storeBetween(fn *ssa.Function, addr ssa.Value, from ssa.Instruction, to ssa.Instruction) bool {
	for _, b := range fn.Blocks {
		for _, in := range b.Instrs {
			st, ok := in.(*ssa.Store)
			if !ok || !sameAddr(st.Addr, addr) {
				continue
			}
			if v, isV := from.(ssa.Value); isV && st.Val == v {
				continue
			}
			// `x = append(x, …)` keeps what was there: not a re-assignment
			if ap, ok := st.Val.(*ssa.Call); ok && builtinCall(ap, "append") != nil && len(ap.Call.Args) > 0 {
				if u, ok := ap.Call.Args[0].(*ssa.UnOp); ok && sameAddr(u.X, addr) {
					continue
				}
			}
			if canFollow(from, st) && canFollow(st, to) {
				// only counts if it dominates the append (re-assigned on every path)
				if st.Block().Dominates(to.Block()) {
					return true
				}
			}
		}
	}
	return false
}

// ruleLoopVisitsAll (C06.R9): the loop over the result of MemPool.Conflicting visits every element:
// the only ways out of the loop are its exhausted condition and error returns (no break).
func (c *Check) ruleLoopVisitsAll(rule, fnKey string, match func(ssa.Value) bool, what, consequence string) {
	fn := c.Fn(rule, fnKey)
	if fn == nil {
		return
	}
	loops := loopsRangingOver(fn, match)
	c.Min(rule, "loops over "+what+" in "+fnKey, len(loops), 1)
	for i, h := range loops {
		body := loopBody(h)
		ok := true
		var wit []string
		for b := range body {
			if b == h {
				continue
			}
			for _, s := range b.Succs {
				if body[s] {
					continue
				}
				// leaving the loop from inside the body
				if isErrorReturnBlock(s) || onlyReachesErrorReturns(s, body) || leavesOnlyThroughErrors(b, s, body) {
					continue
				}
				ok = false
				wit = []string{fmt.Sprintf("exit from block %d (%s) to block %d", b.Index, c.P.Pos(lastPos(b)), s.Index)}
			}
		}
		c.Decide(ok, rule, fmt.Sprintf("%s#visits-every-%s@%d", fnKey, what, i+1), lastPos(h), "cfg-structure", wit,
			"the loop leaves early only through error returns", consequence)
	}
}

// leavesOnlyThroughErrors: leaving the loop over the edge from -> s, every feasible way on (edge-threaded:
// a result flag set just before the exit is followed) ends in an error return without coming back
// into the loop.
func leavesOnlyThroughErrors(from, s *ssa.BasicBlock, body map[*ssa.BasicBlock]bool) bool {
	ok := true
	steps := 0
	explore([]walkNode{mkNode(from, s)}, func(n walkNode) bool {
		steps++
		if steps > 400 {
			ok = false
			return false
		}
		if body[n.b] {
			ok = false
			return false
		}
		if isExitBlock(n.b) {
			if !isErrorReturnBlock(n.b) && !errorReturnOnPath(n) {
				ok = false
			}
			return false
		}
		return ok
	})
	return ok
}

// errorReturnOnPath: n.b returns an error value that is non-nil on the path that led here: a result
// variable joined in this block takes the value of the edge the block was entered by, and a value
// an earlier branch of the path found non-nil is non-nil.
func errorReturnOnPath(n walkNode) bool {
	if len(n.b.Instrs) == 0 {
		return false
	}
	ret, ok := n.b.Instrs[len(n.b.Instrs)-1].(*ssa.Return)
	if !ok || len(ret.Results) == 0 || !resultIsError(n.b.Parent()) {
		return false
	}
	vals := resultValues(ret, len(ret.Results)-1)
	if len(vals) != 1 {
		return false
	}
	v := vals[0]
	if phi, isPhi := v.(*ssa.Phi); isPhi && phi.Block() == n.b && n.pred != nil {
		if pi := predIndex(n.pred, n.b); pi >= 0 && pi < len(phi.Edges) {
			v = phi.Edges[pi]
		}
	}
	if c, isC := v.(*ssa.Const); isC {
		return !c.IsNil()
	}
	at := n.pred
	if at == nil {
		at = n.b
	}
	if knownNonNil(v, at, 0) {
		return true
	}
	if val, known := truthOf(v, n.b, n.env, 0); known && val {
		return true
	}
	return false
}

// onlyReachesErrorReturns: every exit reachable from b (without re-entering the loop) is an error return.
func onlyReachesErrorReturns(b *ssa.BasicBlock, body map[*ssa.BasicBlock]bool) bool {
	seen := map[*ssa.BasicBlock]bool{}
	q := []*ssa.BasicBlock{b}
	for len(q) > 0 {
		x := q[0]
		q = q[1:]
		if seen[x] {
			continue
		}
		seen[x] = true
		if body[x] {
			return false
		}
		if isExitBlock(x) {
			if !isErrorReturnBlock(x) {
				return false
			}
			continue
		}
		q = append(q, x.Succs...)
	}
	return true
}

// ruleConflictingRemovesEach (C06.R4 companion): MemPool.Conflicting removes every returned tx through
// removeTransaction (which unregisters the tx from all outpoints it spends); a Conflicting that
// edits the maps by hand leaves the loser's other inputs registered.
func (c *Check) ruleConflictingRemovesEach(rule string) {
	fn := c.Fn(rule, "state.(*MemPool).Conflicting")
	if fn == nil {
		return
	}
	rm := callsTo(fn, "(*state.MemPool).removeTransaction")
	c.Decide(len(rm) > 0, rule, "state.(*MemPool).Conflicting#evicts-through-removeTransaction", fn.Pos(), "must-call", nil,
		"the returned txs are evicted through removeTransaction", "MemPool.Conflicting never calls removeTransaction: the returned txs are not unregistered from the other outpoints they spend and stay in double-spend tracking")
	// it must not delete from the outpoint index itself
	inputs := c.P.Field("state", "MemPool", "inputs")
	txs := c.P.Field("state", "MemPool", "txs")
	if inputs != nil && txs != nil {
		for _, ac := range fieldAccesses(fn, map[*types.Var]bool{inputs: true, txs: true}) {
			if ac.Kind == "delete" || ac.Kind == "mapupdate" {
				c.Bad(rule, "state.(*MemPool).Conflicting#no-direct-index-edits", ac.Instr.Pos(), "who-may-write", nil,
					"MemPool.Conflicting edits the tx / outpoint maps directly instead of going through removeTransaction: a removed tx with further inputs stays registered on those outpoints")
			}
		}
	}
}

// ruleCanonOnEveryPath (C08.R3 companion): a canonicalisation site fills the hash on every path: from the
// len==20 test both sides copy into the result (verbatim / Hash160) before the value is used.
func (c *Check) ruleCanonOnEveryPath(rule string) {
	for _, fk := range []string{"spynode.pushDataToHash", "spynode.(*Node).SubscribePushDatas"} {
		if fk == "spynode.pushDataToHash" && c.P.Fn(fk) == nil {
			continue // written in place at its call sites
		}
		fn := c.Fn(rule, fk)
		if fn == nil {
			continue
		}
		var copies []ssa.Instruction
		for _, b := range fn.Blocks {
			for _, in := range b.Instrs {
				if call, ok := in.(*ssa.Call); ok && builtinCall(call, "copy") != nil {
					copies = append(copies, call)
				}
			}
		}
		n := 0
		for _, b := range fn.Blocks {
			iff, ok := lastIf(b)
			if !ok {
				continue
			}
			r, ok := edgeRel(iff, 0)
			if !ok || (r.Op != token.EQL && r.Op != token.NEQ) {
				continue
			}
			k, isC := constInt(r.Y)
			if !isC || k != 20 || lenOf(r.X) == nil {
				continue
			}
			n++
			for br := 0; br < 2; br++ {
				first := b.Succs[br].Instrs[0]
				ok2 := containsInstr(b.Succs[br], copies)
				var w []string
				if !ok2 {
					ok2, w = alwaysFollowedBy(first, copies, true, nil)
				}
				c.Decide(ok2, rule, fmt.Sprintf("%s#hash-filled-on-both-sides@%d", fk, br), ifPos(iff), "same-iteration event order", w,
					"both sides of the len==20 test fill the hash", "a push of some length is neither taken verbatim nor hashed: its canonical form is the zero hash, so a subscription for it never matches (and subscribe / compare disagree)")
			}
		}
		if n == 0 && len(callsTo(fn, "spynode.pushDataToHash")) > 0 {
			c.Ok(rule, fk+"#hash-filled-on-both-sides", fn.Pos(), "must-call", "canonicalises through pushDataToHash (checked there)")
			continue
		}
		c.Min(rule, "len==20 tests in "+fk, n, 1)
	}
}

// ruleContractScanContinues (C08.R6): checkContracts answers false only after all outputs were
// examined: no `return false` inside the output loop.
func (c *Check) ruleContractScanContinues(rule string) {
	fn := c.Fn(rule, "spynode.checkContracts")
	if fn == nil {
		return
	}
	n := 0
	for _, ret := range returnsOf(fn) {
		if len(ret.Results) != 1 {
			continue
		}
		for _, v := range resultValues(ret, 0) {
			b, isC := isConstBool(v)
			if !isC {
				// a result variable (`found := false; …; found = true; break; return found`): every edge on
				// which it is the constant false must come from outside the loop body (the initial value)
				srcs, _ := constSources(ret, v, 0)
				for _, src := range srcs {
					if bv, isB := isConstBool(src.Val); !isB || bv || src.Pred == nil {
						continue
					}
					n++
					inLoop := false
					for _, h := range loopHeadersOf(fn) {
						if body := loopBody(h); body[src.Pred] && src.Pred != h {
							inLoop = true
						}
					}
					c.Decide(!inLoop, rule, "spynode.checkContracts#false-only-after-all-outputs", ret.Pos(), "cfg-structure", nil,
						"false is answered only when the output loop is exhausted", "checkContracts can answer false from inside the output loop (after the first non-contract action): a contract formation in a later output is missed")
				}
				continue
			}
			if b {
				continue
			}
			n++
			// the false must not be decided inside the loop: every path to this return leaves the
			// loop through its exhausted condition (the header's exit edge)
			inLoopDecision := false
			var wit []string
			for _, h := range loopHeadersOf(fn) {
				body := loopBody(h)
				for blk := range body {
					if blk == h {
						continue
					}
					for _, s := range blk.Succs {
						if !body[s] && reachable(s, ret.Block()) && falseReaches(s, ret, v) {
							inLoopDecision = true
							wit = []string{"leaves the loop body at " + c.P.Pos(lastPos(blk))}
						}
					}
				}
			}
			c.Decide(!inLoopDecision, rule, "spynode.checkContracts#false-only-after-all-outputs", ret.Pos(), "cfg-structure", wit,
				"false is answered only when the output loop is exhausted", "checkContracts can answer false from inside the output loop (after the first non-contract action): a contract formation in a later output is missed")
		}
	}
	c.Min(rule, "false answers of checkContracts", n, 1)
}

func loopHeadersOf(fn *ssa.Function) []*ssa.BasicBlock {
	var out []*ssa.BasicBlock
	for _, b := range fn.Blocks {
		if loopBody(b) != nil {
			out = append(out, b)
		}
	}
	return out
}

// falseReaches: the constant v is what ret returns when control arrives via block s (phi-aware).
func falseReaches(s *ssa.BasicBlock, ret *ssa.Return, v ssa.Value) bool {
	if len(ret.Results) == 0 {
		return false
	}
	if phi, ok := ret.Results[0].(*ssa.Phi); ok {
		for i, e := range phi.Edges {
			if e == v {
				p := phi.Block().Preds[i]
				if p == s || reachable(s, p) {
					return true
				}
			}
		}
		return false
	}
	return true
}

// ruleSubscribeAddsEach (C08.R7): SubscribePushDatas adds exactly one entry per given push data on
// every path of an iteration (unsubscribe removes one entry per call, so a skipped duplicate makes
// subscribe, subscribe, unsubscribe drop the subscription).
func (c *Check) ruleSubscribeAddsEach(rule string, fHashes *types.Var) {
	fn := c.Fn(rule, "spynode.(*Node).SubscribePushDatas")
	if fn == nil || fHashes == nil {
		return
	}
	var h *ssa.BasicBlock
	for _, st := range storesToField(fn, fHashes) {
		if x := loopHeaderOf(st.Block()); x != nil {
			// outermost loop containing the store
			for _, e := range enclosingLoops(st.Block()) {
				x = e
			}
			h = x
		}
	}
	if h == nil {
		c.Bad(rule, "spynode.(*Node).SubscribePushDatas#one-entry-per-push-data", fn.Pos(), "cfg-structure", nil, "SubscribePushDatas does not add to the subscribed list inside a loop over its argument")
		return
	}
	counts := iterationCounts(h, func(in ssa.Instruction) int {
		if st, ok := in.(*ssa.Store); ok {
			if fa, ok := st.Addr.(*ssa.FieldAddr); ok && fieldOfAddr(fa) == fHashes {
				return 1
			}
		}
		return 0
	})
	ok := len(counts) == 1
	var w []string
	for k, path := range counts {
		if k != 1 {
			ok = false
			w = pathWitness(fn, path)
		}
	}
	c.Decide(ok, rule, "spynode.(*Node).SubscribePushDatas#one-entry-per-push-data", lastPos(h), "per-iteration event counting", w,
		"every iteration adds exactly one entry", "an iteration of SubscribePushDatas can complete without adding an entry (or adds several): subscriptions are no longer counted the way UnsubscribePushDatas removes them")
}

// ruleMakeSizesBounded (C09.R10): in the chain query methods reachable from client requests a
// make() sized by a request parameter (or arithmetic on one) is behind bounds: a negative or huge
// size panics / allocates out of proportion instead of answering "nothing".
func (c *Check) ruleMakeSizesBounded(rule string, fnKeys ...string) {
	n := 0
	for _, fk := range fnKeys {
		fn := c.Fn(rule, fk)
		if fn == nil {
			continue
		}
		tc := newTaintCtx(func(*ssa.Function) bool { return false })
		for _, p := range fn.Params {
			if isIntegerType(p.Type()) {
				tc.paramTaint[p] = true
			}
		}
		t := tc.decodedTaint(fn)
		// results of calls (LastHeight …) combined with tainted values are tainted by arithmetic already
		for _, b := range fn.Blocks {
			for _, in := range b.Instrs {
				ms, ok := in.(*ssa.MakeSlice)
				if !ok {
					continue
				}
				for _, size := range []ssa.Value{ms.Len, ms.Cap} {
					if size == nil || !t[size] {
						continue
					}
					n++
					ok2, w := sizeBounded(ms, size, t)
					c.Decide(ok2, rule, fk+"#make-size-bounded", ms.Pos(), "taint-to-allocation", w,
						"the requested size is bounded before the allocation", "a size computed from request parameters reaches make() without bounds: a start height beyond the tip (negative size) panics the node, a huge count allocates gigabytes")
				}
			}
		}
		c.Ok(rule, fk+"#makes-examined", fn.Pos(), "taint-to-allocation", "make() sites sized by request parameters examined")
	}
	_ = n
}

// ruleReadIsFresh (C09.R11): BlockRepository.read answers from storage; if it can answer from a
// field of the repository (a cache), every method that removes or rewrites block files also
// writes that field (invalidation).
func (c *Check) ruleReadIsFresh(rule string, a *repoAnchors) {
	fn := c.Fn(rule, "storage.(*BlockRepository).read")
	if fn == nil {
		return
	}
	cache := map[*types.Var]bool{}
	collect := func(g *ssa.Function, skip map[*types.Var]bool) {
		repoT := c.P.NamedType("storage", "BlockRepository")
		ofRepo := func(f *types.Var) bool {
			if repoT == nil {
				return true
			}
			st, _ := repoT.Underlying().(*types.Struct)
			for i := 0; st != nil && i < st.NumFields(); i++ {
				if st.Field(i) == f {
					return true
				}
			}
			return false
		}
		for _, ret := range returnsOf(g) {
			for _, v := range resultValues(ret, 0) {
				for _, x := range rootsAll(v) {
					if fa, ok := x.(*ssa.FieldAddr); ok {
						if f := fieldOfAddr(fa); f != nil && !skip[f] && ofRepo(f) {
							cache[f] = true
						}
					}
					if u, ok := x.(*ssa.UnOp); ok {
						if f := anyFieldLoad(u); f != nil && !skip[f] && ofRepo(f) {
							cache[f] = true
						}
					}
				}
			}
		}
	}
	collect(fn, map[*types.Var]bool{a.store: true})
	// the by-height getters answer from read() or from the newest file held in lastHeaders; a further
	// field they can answer from (a memo of the last file parsed) is a cache as well
	for _, k := range []string{"storage.(*BlockRepository).getHash", "storage.(*BlockRepository).getTime", "storage.(*BlockRepository).getHeader", "storage.(*BlockRepository).LastHash"} {
		if g := c.P.Fn(k); g != nil && g.Blocks != nil {
			collect(g, map[*types.Var]bool{a.store: true, a.lastHeaders: true, a.height: true})
		}
	}
	if len(cache) == 0 {
		c.Ok(rule, "storage.(*BlockRepository).read#fresh", fn.Pos(), "provenance", "every result of read derives from a storage read in the same call")
		return
	}
	for f := range cache {
		for _, m := range c.P.FuncsIn("storage") {
			if !strings.HasPrefix(c.P.Key(m), "storage.(*BlockRepository).") {
				continue
			}
			rewrites := false
			for _, s := range sitesIn(m) {
				if s.CC.IsInvoke() && (s.CC.Method.Name() == "Remove" || s.CC.Method.Name() == "Write") && c.P.Key(m) != "storage.(*BlockRepository).save" {
					rewrites = true
				}
			}
			// ... or replaces the newest file held in memory (Load, Add, Revert)
			for _, st := range storesToField(m, a.lastHeaders) {
				if fa, ok := st.Addr.(*ssa.FieldAddr); ok && !isFreshObject(fa) {
					rewrites = true
				}
			}
			if !rewrites {
				continue
			}
			stores := storesToField(m, f)
			okInv := len(stores) > 0
			var wInv []string
			if okInv {
				// on every successful path, not only under a condition
				var evs []ssa.Instruction
				for _, st := range stores {
					evs = append(evs, st)
				}
				for _, ret := range returnsOf(m) {
					if isErrorReturnBlock(ret.Block()) || (m.Recover != nil && ret.Block() == m.Recover) {
						continue
					}
					if ok2, w2 := alwaysPrecededBy(ret, evs); !ok2 {
						okInv, wInv = false, w2
					}
				}
			}
			c.Decide(okInv, rule, c.P.Key(m)+"#invalidates-"+f.Name(), m.Pos(), "who-must-write", wInv,
				"the cached field is rewritten where block files are removed / rewritten", "read() can answer from the field "+f.Name()+" but "+c.P.Key(m)+" removes / rewrites block files without touching it on every successful path: after a revert the by-height queries answer from the abandoned branch")
		}
	}
}

// rulePendingForkGuardOnParent (C13.R7 companion): the "fork among pending blocks" test asks both queues
// about the header's PARENT; asking about the header itself (already known not to be queued) makes
// the test vacuous for the to-request queue.
func (c *Check) rulePendingForkGuardOnParent(rule string) {
	fn := c.Fn(rule, "handlers.(*HeadersHandler).Handle")
	if fn == nil {
		return
	}
	prev := c.P.Field("github.com/tokenized/pkg/wire", "BlockHeader", "PrevBlock")
	isPrev := func(v ssa.Value) bool {
		for _, x := range rootsAll(v) {
			if fa, ok := x.(*ssa.FieldAddr); ok && fa.X.Type().String() == "*github.com/tokenized/pkg/wire.BlockHeader" {
				if st, ok := fa.X.Type().Underlying().(*types.Pointer); ok {
					if s, ok := st.Elem().Underlying().(*types.Struct); ok && s.Field(fa.Field).Name() == "PrevBlock" {
						return true
					}
				}
			}
		}
		_ = prev
		return false
	}
	for _, s := range callsTo(fn, "(*state.State).ClearBlockRequestsAfter") {
		for _, name := range []string{"(*state.State).BlockIsRequested", "(*state.State).BlockIsToBeRequested"} {
			g := callEdge(true, -1, func(call *ssa.Call) bool {
				a := call.Call.Args
				return len(a) >= 2 && isPrev(a[len(a)-1])
			}, name)
			// the clear is reachable through the true edge of this test on the parent
			okEdge := false
			for _, b := range fn.Blocks {
				iff, ok := lastIf(b)
				if !ok {
					continue
				}
				// the test may be the value form of `a || b` (a phi of b): look at it edge by edge
				effs := []*ssa.If{iff}
				for _, p := range b.Preds {
					effs = append(effs, walkNode{b: b, pred: p}.effectiveIf(iff))
				}
				for _, e := range effs {
					for br := 0; br < 2; br++ {
						if g(e, br) && (b.Succs[br] == s.Instr.Block() || reachable(b.Succs[br], s.Instr.Block())) {
							okEdge = true
						}
					}
				}
			}
			c.Decide(okEdge, rule, "handlers.(*HeadersHandler).Handle#pending-fork-test-on-parent#"+strings.TrimPrefix(name, "(*state.State)."), s.Pos(), "edge-cutset+provenance", nil,
				"the pending-fork branch is entered when the parent is in this queue", "the pending-fork branch is never entered through "+name+"(parent): a fork whose fork point is in that queue is not recognised, the requests beyond it are kept and the new branch is not queued")
		}
	}
}

// ruleRemovedRangeIsCountedRange (C13.R2 companion): where ClearBlockRequestsAfter truncates the requested
// queue to q[:k], the loop that gives the buffered bytes back ranges over q[k:] with the same k.
func (c *Check) ruleRemovedRangeIsCountedRange(rule string, fRequested, fSize *types.Var) {
	fn := c.Fn(rule, "state.(*State).ClearBlockRequestsAfter")
	if fn == nil || fRequested == nil || fSize == nil {
		return
	}
	n := 0
	for _, st := range storesToField(fn, fRequested) {
		sl, ok := st.Val.(*ssa.Slice)
		if !ok || sl.High == nil || loadOfField(sl.X, fRequested) == nil {
			continue
		}
		n++
		// loops whose body subtracts from the counter: the queue indexes they visit, as an interval
		found, okSame := false, false
		want := linOfValue(sl.High)
		isQueueLen := func(l linComb) bool { // l == len(queue)
			if l.k != 0 || len(l.terms) != 1 {
				return false
			}
			for t, cf := range l.terms {
				if x := lenOf(l.atoms[t]); cf == 1 && x != nil && loadOfField(x, fRequested) != nil {
					return true
				}
			}
			return false
		}
		for _, h := range loopHeadersOf(fn) {
			body := loopBody(h)
			subtracts := false
			for b := range body {
				for _, in := range b.Instrs {
					if s2, ok := in.(*ssa.Store); ok {
						if fa, ok := s2.Addr.(*ssa.FieldAddr); ok && fieldOfAddr(fa) == fSize {
							subtracts = true
						}
					}
				}
			}
			if !subtracts {
				continue
			}
			// `for _, r := range q[k:]`
			if rs := rangedSlice(h); rs != nil {
				if rsl, ok := stripConv(rs).(*ssa.Slice); ok && loadOfField(rsl.X, fRequested) != nil {
					found = true
					if rsl.Low != nil && rsl.High == nil && linOfValue(rsl.Low).equal(want) {
						okSame = true
					}
					continue
				}
			}
			// index forms: the queue is indexed by an expression affine in a counted loop's variable
			cl := countedLoopAt(h)
			if cl == nil {
				continue
			}
			for b := range body {
				for _, in := range b.Instrs {
					ia, ok := in.(*ssa.IndexAddr)
					if !ok || loadOfField(ia.X, fRequested) == nil {
						continue
					}
					lo, hi, ok := cl.rangeOf(ia.Index)
					if !ok {
						continue
					}
					found = true
					if lo.equal(want) && isQueueLen(hi.plusConst(1)) {
						okSame = true
					}
				}
			}
		}
		c.Decide(found && okSame, rule, "state.(*State).ClearBlockRequestsAfter#counted-range-is-removed-range", st.Pos(), "value shape", nil,
			"the bytes given back are those of exactly the requests that are dropped", "the loop that gives buffered bytes back does not range over exactly the dropped requests q[k:] for the truncation q[:k] (off by one): the counter drifts (negative / never back to zero) and the byte limit no longer pauses requests")
	}
	c.Min(rule, "truncations of the requested queue in ClearBlockRequestsAfter", n, 1)
}

// ruleNoUseAfterTransmit (C14.R7): a message handed to TransmitMessage is owned by the outgoing
// queue (it is serialised later); the tracker must not touch it again in the same iteration.
func (c *Check) ruleNoUseAfterTransmit(rule, fnKey string) {
	fn := c.Fn(rule, fnKey)
	if fn == nil {
		return
	}
	n := 0
	for _, s := range sitesIn(fn) {
		if !s.CC.IsInvoke() || s.CC.Method.Name() != "TransmitMessage" || len(s.CC.Args) == 0 {
			continue
		}
		n++
		msg := s.CC.Args[0]
		if mi, ok := msg.(*ssa.MakeInterface); ok {
			msg = mi.X
		}
		var bad ssa.Instruction
		uses := func(in ssa.Instruction) bool {
			switch x := in.(type) {
			case *ssa.Call:
				if x == s.Instr {
					return false
				}
				if !x.Call.IsInvoke() && len(x.Call.Args) > 0 && x.Call.Args[0] == msg && x.Call.StaticCallee() != nil && x.Call.StaticCallee().Signature.Recv() != nil {
					return true
				}
			case *ssa.FieldAddr:
				if x.X == msg {
					for _, r := range *x.Referrers() {
						if st, ok := r.(*ssa.Store); ok && st.Addr == ssa.Value(x) {
							return true
						}
					}
				}
			}
			return false
		}
		for _, b := range fn.Blocks {
			for _, in := range b.Instrs {
				if uses(in) && canFollowSameIteration(s.Instr, in, fn) {
					bad = in
				}
			}
		}
		pos := s.Pos()
		if bad != nil {
			pos = bad.Pos()
		}
		c.Decide(bad == nil, rule, fmt.Sprintf("%s#message-not-touched-after-transmit@%d", fnKey, n), pos, "ownership hand-over", nil,
			"a transmitted message is not modified afterwards", "a message is modified after it was handed to TransmitMessage (e.g. truncated and refilled): the queue serialises it later, so the queued batch is overwritten – its txs are never requested and the new ones are requested twice")
	}
	c.Min(rule, "TransmitMessage calls in "+fnKey, n, 2)
}

// ruleSetLastHashAfterAdd (C10.R7): below the start height checkStartHeight moves the node's last
// hash to a header only after BlockRepository.Add accepted that header (a failed write must not
// leave the linking cursor ahead of the stored chain).
func (c *Check) ruleSetLastHashAfterAdd(rule string) {
	fn := c.Fn(rule, "handlers.(HeadersHandler).checkStartHeight")
	if fn == nil {
		return
	}
	adds := callsTo(fn, "(*storage.BlockRepository).Add")
	n := 0
	for _, s := range callsTo(fn, "(*state.State).SetLastHash") {
		a := s.Args()
		if len(a) == 0 {
			continue
		}
		// only the stores of this header's own hash (BlockHash()), not of its parent
		if derivesFromCall(a[len(a)-1], "(*wire.BlockHeader).BlockHash") == nil {
			// ... but a store that follows a successful Add of the header moves the last hash to that header:
			// any other value (its parent) makes the next poll's first header look new again
			for _, ad := range adds {
				if call, isCall := ad.Instr.(*ssa.Call); isCall {
					if after, _ := mustPass(s.Instr, errNilEdge(sameCall(call), true)); after {
						c.Bad(rule, "handlers.(HeadersHandler).checkStartHeight#last-hash-is-the-added-header", s.Pos(), "provenance", nil,
							"after a header was added to the chain the last hash is set to something else than that header's own hash: the reply to the next poll starts with the tip, which is then taken for a new header and added a second time")
					}
				}
			}
			continue
		}
		n++
		ok := false
		var w []string
		for _, ad := range adds {
			if call, isCall := ad.Instr.(*ssa.Call); isCall {
				if ok2, w2 := mustPass(s.Instr, errNilEdge(sameCall(call), true)); ok2 {
					ok = true
				} else {
					w = w2
				}
			}
		}
		c.Decide(ok, rule, fmt.Sprintf("handlers.(HeadersHandler).checkStartHeight#last-hash-after-add@%d", n), s.Pos(), "edge-cutset", w,
			"the last hash moves to the header only after it was added", "SetLastHash(header) can run although BlockRepository.Add of that header failed (or before it): after one failed write the next headers link to a header that is not in the stored chain")
	}
	c.Min(rule, "SetLastHash(own hash) in checkStartHeight", n, 1)
}

// ruleSaveNotSkipped (C09.R12, C11.R6): a save function reports success only after it wrote (or
// removed) the stored record. If it may skip the write behind a boolean "modified" field of the
// repository, every function that mutates the persisted state must set that field afterwards with
// no later clearing before it returns.
func (c *Check) ruleSaveNotSkipped(rule string, saveKeys []string, repoRel, repoType string, persisted map[*types.Var]bool, exempt map[string]bool) {
	for _, sk := range saveKeys {
		fn := c.Fn(rule, sk)
		if fn == nil {
			continue
		}
		var writes []ssa.Instruction
		for _, s := range sitesIn(fn) {
			if s.CC.IsInvoke() && (s.CC.Method.Name() == "Write" || s.CC.Method.Name() == "Remove") {
				writes = append(writes, s.Instr)
			}
			for _, inner := range saveKeys {
				if inner != sk && c.P.Fn(inner) != nil && s.CC.StaticCallee() == c.P.Fn(inner) {
					writes = append(writes, s.Instr)
				}
			}
		}
		skipping := false
		var wit []string
		var pos token.Pos = fn.Pos()
		for _, ret := range returnsOf(fn) {
			if _, edges := nilErrorSources(ret); len(edges) > 0 {
				for _, src := range edges {
					if ok, w := alwaysPrecededBy(src.At, writes); !ok {
						skipping = true
						wit = w
						pos = ret.Pos()
					}
				}
				continue
			}
			if isNil, known := errIsNilReturn(ret); known && !isNil {
				continue
			}
			if ok, w := alwaysPrecededBy(ret, writes); !ok {
				skipping = true
				wit = w
				pos = ret.Pos()
			}
		}
		if !skipping {
			c.Ok(rule, sk+"#always-writes", fn.Pos(), "must-pass-through", "every successful return follows a storage write / removal")
			continue
		}
		// which boolean field of the repository guards the skip?
		var flags []*types.Var
		for _, b := range fn.Blocks {
			iff, ok := lastIf(b)
			if !ok {
				continue
			}
			cd := normCond(iff.Cond)
			if f := anyFieldLoad(cd.V); f != nil {
				if bt, ok := f.Type().Underlying().(*types.Basic); ok && bt.Kind() == types.Bool {
					flags = append(flags, f)
				}
			}
		}
		if len(flags) == 0 {
			c.Bad(rule, sk+"#always-writes", pos, "must-pass-through", wit, "%s can report success without having written the record", sk)
			continue
		}
		for _, f := range flags {
			c.dirtyFlagDiscipline(rule, sk, f, repoRel, persisted, exempt)
		}
	}
}

func (c *Check) dirtyFlagDiscipline(rule, saveKey string, flag *types.Var, repoRel string, persisted map[*types.Var]bool, exempt map[string]bool) {
	clears := func(fn *ssa.Function) bool {
		for _, st := range storesToField(fn, flag) {
			if b, isC := isConstBool(st.Val); isC && !b {
				return true
			}
		}
		return false
	}
	n := 0
	for _, g := range c.P.FuncsIn(repoRel) {
		k := c.P.Key(g)
		if exempt[k] || k == saveKey {
			continue
		}
		var muts []ssa.Instruction
		for _, ac := range fieldAccesses(g, persisted) {
			switch ac.Kind {
			case "store", "delete", "mapupdate":
				muts = append(muts, ac.Instr)
			}
		}
		if len(muts) == 0 {
			continue
		}
		// clearing events and good settings in g
		var clearEv []ssa.Instruction
		for _, st := range storesToField(g, flag) {
			if b, isC := isConstBool(st.Val); isC && !b {
				clearEv = append(clearEv, st)
			}
		}
		for _, s := range sitesIn(g) {
			if callee := s.CC.StaticCallee(); callee != nil && callee.Blocks != nil && clears(callee) {
				clearEv = append(clearEv, s.Instr)
			}
		}
		var good []ssa.Instruction
		for _, st := range storesToField(g, flag) {
			if b, isC := isConstBool(st.Val); !isC || !b {
				continue
			}
			cleared := false
			for _, ce := range clearEv {
				if canFollow(st, ce) {
					cleared = true
				}
			}
			if !cleared {
				good = append(good, st)
			}
		}
		for _, m := range muts {
			n++
			ok := containsAfter(m, good)
			var w []string
			if !ok {
				ok, w = alwaysFollowedBy(m, good, false, nil)
			}
			c.Decide(ok, rule, fmt.Sprintf("%s#sets-%s-after-mutation", k, flag.Name()), m.Pos(), "path-typestate", w,
				"the mutation is followed by setting the modified flag", saveKey+" skips the write while the field "+flag.Name()+" is false, but "+k+" changes persisted state without (finally) setting it: the change is lost at the next clean stop / is missing before a revert")
		}
	}
	c.Min(rule, "mutations of persisted state checked against the "+flag.Name()+" flag", n, 1)
}

func containsAfter(in ssa.Instruction, set []ssa.Instruction) bool {
	for _, s := range set {
		if s.Block() == in.Block() && instrIndex(s) > instrIndex(in) {
			return true
		}
	}
	return false
}

// selectCaseEdge: on this edge the select statement took a case satisfying match.
func selectCaseEdge(match func(sel *ssa.Select, st *ssa.SelectState) bool) EdgePred {
	return func(iff *ssa.If, br int) bool {
		r, ok := edgeRel(iff, br)
		if !ok || r.Op != token.EQL {
			return false
		}
		ex, ok := r.X.(*ssa.Extract)
		if !ok || ex.Index != 0 {
			return false
		}
		sel, ok := ex.Tuple.(*ssa.Select)
		if !ok {
			return false
		}
		k, isC := constInt(r.Y)
		if !isC || int(k) >= len(sel.States) || k < 0 {
			return false
		}
		return match(sel, sel.States[k])
	}
}

// ruleIndexBoundOnSameIndex (C16.R7 companion): in GetOutputs every index into a fetched tx's
// output list is behind an upper-bound test of that same index expression against the list.
func (c *Check) ruleIndexBoundOnSameIndex(rule, fnKey string) {
	fn := c.Fn(rule, fnKey)
	if fn == nil {
		return
	}
	n := 0
	for _, b := range fn.Blocks {
		for _, in := range b.Instrs {
			ia, ok := in.(*ssa.IndexAddr)
			if !ok {
				continue
			}
			sl, ok := ia.X.Type().Underlying().(*types.Slice)
			if !ok || !strings.HasSuffix(sl.Elem().String(), "wire.TxOut") {
				continue
			}
			if _, isC := ia.Index.(*ssa.Const); isC {
				continue
			}
			// only slices read from a tx (field TxOut), not the result slice being filled
			fromTx := false
			for _, x := range rootsAll(ia.X) {
				if fa, ok := x.(*ssa.FieldAddr); ok {
					if st, ok := fa.X.Type().Underlying().(*types.Pointer); ok {
						if s, ok := st.Elem().Underlying().(*types.Struct); ok && s.Field(fa.Field).Name() == "TxOut" {
							fromTx = true
						}
					}
				}
			}
			if !fromTx {
				continue
			}
			n++
			idx := stripConv(ia.Index)
			g := func(iff *ssa.If, br int) bool {
				r, ok := edgeRel(iff, br)
				if !ok {
					return false
				}
				x, y, op := r.X, r.Y, r.Op
				if lenOf(y) == nil {
					x, y, op = y, x, swapOp(op)
				}
				l := lenOf(y)
				if l == nil || op != token.LSS {
					return false
				}
				return sameExpr(stripConv(x), idx) && sameListValue(l, ia.X)
			}
			ok2, w := mustPass(ia, g)
			c.Decide(ok2, rule, fmt.Sprintf("%s#txout-index-checked@%d", fnKey, n), ia.Pos(), "bounds edge-cutset", w,
				"the index used is the index that was tested against the output count", "an output is taken by an index that was not itself tested against the tx's output count (the test is on another variable): a request naming an out-of-range index panics instead of returning an error")
		}
	}
	c.Min(rule, "indexed reads of a fetched tx's outputs in "+fnKey, n, 1)
}

// ruleRemoveByIdentity (C16.R6 companion): the deregistration arm of the requests thread removes the
// entry that IS the request it was handed (pointer identity); matching by type and key removes
// another call's entry when keys repeat (all get_headers requests have the zero key).
func (c *Check) ruleRemoveByIdentity(rule string, fRequests, fRemoveChan *types.Var) {
	fn := c.Fn(rule, "client.(*RemoteClient).runRequests")
	if fn == nil || fRequests == nil || fRemoveChan == nil {
		return
	}
	reqT := c.P.NamedType("client", "request")
	isReqPtr := func(v ssa.Value) bool {
		p, ok := v.Type().Underlying().(*types.Pointer)
		return ok && reqT != nil && types.Identical(p.Elem(), reqT)
	}
	fromRemoveChan := func(v ssa.Value) bool {
		for _, x := range rootsAll(v) {
			if ex, ok := x.(*ssa.Extract); ok {
				if sel, ok := ex.Tuple.(*ssa.Select); ok {
					for _, st := range sel.States {
						if loadOfField(st.Chan, fRemoveChan) != nil {
							return true
						}
					}
				}
			}
			if u, ok := x.(*ssa.UnOp); ok && u.Op == token.ARROW && loadOfField(u.X, fRemoveChan) != nil {
				return true
			}
		}
		return false
	}
	n := 0
	for _, st := range storesToField(fn, fRequests) {
		// in the remove arm: dominated by the select case of removeRequestsChannel
		inArm, _ := mustPass(st, selectCaseEdge(func(sel *ssa.Select, s *ssa.SelectState) bool {
			return loadOfField(s.Chan, fRemoveChan) != nil
		}))
		if !inArm {
			continue
		}
		n++
		g := func(iff *ssa.If, br int) bool {
			r, ok := edgeRel(iff, br)
			if !ok || r.Op != token.EQL {
				return false
			}
			if !isReqPtr(r.X) || !isReqPtr(r.Y) {
				return false
			}
			return fromRemoveChan(r.X) != fromRemoveChan(r.Y)
		}
		ok, w := mustPass(st, g)
		c.Decide(ok, rule, "client.(*RemoteClient).runRequests#deregisters-by-identity", st.Pos(), "edge-cutset", w,
			"the entry removed is the request that was handed in", "the deregistration arm picks the entry to remove by something other than identity with the request it was handed: with repeated keys (get_headers / get_fee_quotes use the zero key) another pending call's entry is removed and that call times out although it is answered")
	}
	c.Min(rule, "removals in the deregistration arm", n, 1)
}

// ruleFreshEnvelopePerMessage (C17.R6): the receive loop hands a freshly allocated message to the
// channel in every iteration (a reused envelope is overwritten while still queued).
func (c *Check) ruleFreshEnvelopePerMessage(rule string) {
	fn := c.Fn(rule, "client.receiveMessages")
	if fn == nil {
		return
	}
	n := 0
	check := func(in ssa.Instruction, v ssa.Value) {
		h := loopHeaderOf(in.Block())
		if h == nil {
			return
		}
		if _, isPtr := v.Type().Underlying().(*types.Pointer); !isPtr {
			return
		}
		n++
		body := loopBody(h)
		fresh := false
		for _, x := range rootsAll(v) {
			if al, ok := x.(*ssa.Alloc); ok && body[al.Block()] {
				fresh = true
			}
		}
		c.Decide(fresh, rule, "client.receiveMessages#fresh-envelope-per-message", in.Pos(), "ownership hand-over", nil,
			"each message sent on the channel is allocated in the iteration that sends it", "the receive loop sends the same message object in every iteration: a notification that is still queued is overwritten by the next one read (one is lost, another delivered twice)")
	}
	for _, b := range fn.Blocks {
		for _, in := range b.Instrs {
			switch x := in.(type) {
			case *ssa.Send:
				check(x, x.X)
			case *ssa.Select:
				for _, st := range x.States {
					if st.Dir == types.SendOnly && st.Send != nil {
						check(x, st.Send)
					}
				}
			}
		}
	}
	c.Min(rule, "sends in the receive loop", n, 1)
}

// ruleNoGoroutineOnNotificationPath (C17.R7): nothing that queues a notification for the handler
// runs in a goroutine of its own (order is kept by the single receive → handle thread).
func (c *Check) ruleNoGoroutineOnNotificationPath(rule string) {
	target := c.P.Fn("client.(*RemoteClient).addHandlerMessage")
	if target == nil {
		c.Undecided(rule, "anchor:client.(*RemoteClient).addHandlerMessage", token.NoPos, "function not found")
		return
	}
	g := c.Graph()
	n := 0
	for _, fn := range c.P.FuncsIn("client") {
		for _, b := range fn.Blocks {
			for _, in := range b.Instrs {
				gs, ok := in.(*ssa.Go)
				if !ok {
					continue
				}
				n++
				var roots []*ssa.Function
				if callee := gs.Call.StaticCallee(); callee != nil {
					roots = append(roots, callee)
				}
				if mc, ok := gs.Call.Value.(*ssa.MakeClosure); ok {
					if f, ok := mc.Fn.(*ssa.Function); ok {
						roots = append(roots, f)
					}
				}
				reach := g.Reach(roots, nil)
				_, hits := reach[target]
				for _, r := range roots {
					if r == target {
						hits = true
					}
				}
				// the long-running threads started once per client / connection are the pipeline itself
				if hits && isPipelineThread(c.P.Key(fn)) {
					continue
				}
				if hits {
					c.Bad(rule, c.P.Key(fn)+"#goroutine-queues-notifications", gs.Pos(), "call-graph reachability", nil,
						"a goroutine started here can queue notifications for the handler: it races with the receive thread, so notifications reach the handler in a different order than the server sent them")
				}
			}
		}
	}
	c.Ok(rule, "client#goroutines-examined", token.NoPos, "call-graph reachability", "%d go statements examined: none outside the pipeline threads reaches addHandlerMessage", n)
}

func isPipelineThread(fnKey string) bool {
	switch fnKey {
	case "client.(*RemoteClient).runConnection", "client.(*RemoteClient).Run", "client.(*RemoteClient).connect":
		return true
	}
	return false
}

// ruleQueuedOnlyOnSend (C17.R2 companion): addHandlerMessage reports success only from the select
// case that actually sent the message to the handler channel.
func (c *Check) ruleQueuedOnlyOnSend(rule string, fChan *types.Var) {
	fn := c.Fn(rule, "client.(*RemoteClient).addHandlerMessage")
	if fn == nil || fChan == nil {
		return
	}
	sent := selectCaseEdge(func(sel *ssa.Select, st *ssa.SelectState) bool {
		return st.Dir == types.SendOnly && loadOfField(st.Chan, fChan) != nil
	})
	n := 0
	for _, ret := range returnsOf(fn) {
		// a single return of a result variable: each path on which it is nil must come from the send
		if _, edges := nilErrorSources(ret); len(edges) > 0 {
			handled := false
			for _, src := range edges {
				handled = true
				n++
				ok, w := mustPassAt(src, sent)
				c.Decide(ok, rule, "client.(*RemoteClient).addHandlerMessage#success-only-after-send", ret.Pos(), "edge-cutset", w,
					"success is reported only when the message was put on the handler channel", "addHandlerMessage can report success for a message that was never queued: the callers advance the next message id on success, so the id counts a message the handler never got and the reconnect does not ask for it again")
			}
			if handled {
				continue
			}
		}
		isNil, known := errIsNilReturn(ret)
		if known && !isNil {
			// "not the nil constant" is not enough here: the value must be known non-nil (a sentinel, a
			// fresh error, a wrap of one); `errors.Wrap(ctx.Err(), …)` is nil whenever ctx.Err() is
			nonNil := true
			for _, v := range resultValues(ret, len(ret.Results)-1) {
				if !knownNonNil(v, ret.Block(), 0) {
					nonNil = false
				}
			}
			if nonNil {
				continue
			}
		}
		n++
		ok, w := mustPass(ret, sent)
		if !ok {
			// plain (non-select) send before the return
			var sends []ssa.Instruction
			for _, b := range fn.Blocks {
				for _, in := range b.Instrs {
					if s, isS := in.(*ssa.Send); isS && loadOfField(s.Chan, fChan) != nil {
						sends = append(sends, s)
					}
				}
			}
			if len(sends) > 0 {
				ok, w = alwaysPrecededBy(ret, sends)
			}
		}
		c.Decide(ok, rule, "client.(*RemoteClient).addHandlerMessage#success-only-after-send", ret.Pos(), "edge-cutset", w,
			"success is reported only when the message was put on the handler channel", "addHandlerMessage can report success for a message that was never queued: the callers advance the next message id on success, so the id counts a message the handler never got and the reconnect does not ask for it again")
	}
	c.Min(rule, "successful returns of addHandlerMessage", n, 1)
}

// ruleFreshSessionPerConnect (C18.R3 companion): generateSession reports success only after it
// stored a newly derived session hash in this call.
func (c *Check) ruleFreshSessionPerConnect(rule string, fHash *types.Var) {
	fn := c.Fn(rule, "client.(*RemoteClient).generateSession")
	if fn == nil || fHash == nil {
		return
	}
	var stores []ssa.Instruction
	for _, st := range storesToField(fn, fHash) {
		stores = append(stores, st)
	}
	n := 0
	for _, ret := range returnsOf(fn) {
		if _, edges := nilErrorSources(ret); len(edges) > 0 {
			for _, src := range edges {
				n++
				ok, w := alwaysPrecededBy(src.At, stores)
				c.Decide(ok && len(stores) > 0, rule, "client.(*RemoteClient).generateSession#fresh-hash-on-success", ret.Pos(), "path-typestate", w,
					"every successful return follows the store of a newly derived session hash", "generateSession can succeed without deriving a new session hash (keeps the previous connection's): a genuine accept recorded for that earlier hash can be replayed on the new connection")
			}
			continue
		}
		isNil, known := errIsNilReturn(ret)
		if known && !isNil {
			continue
		}
		n++
		ok, w := alwaysPrecededBy(ret, stores)
		c.Decide(ok && len(stores) > 0, rule, "client.(*RemoteClient).generateSession#fresh-hash-on-success", ret.Pos(), "path-typestate", w,
			"every successful return follows the store of a newly derived session hash", "generateSession can succeed without deriving a new session hash (keeps the previous connection's): a genuine accept recorded for that earlier hash can be replayed on the new connection")
	}
	c.Min(rule, "successful returns of generateSession", n, 1)
}

// ruleHandshakeCompleteAfterReadyWritten (C18.R8): Ready marks the handshake complete (flag and
// notification to the send thread) only after the ready message was written successfully.
func (c *Check) ruleHandshakeCompleteAfterReadyWritten(rule string, fHSC, fHSCChan *types.Var) {
	fn := c.Fn(rule, "client.(*RemoteClient).Ready")
	if fn == nil || fHSC == nil {
		return
	}
	var direct *ssa.Call
	for _, s := range callsTo(fn, "(*client.RemoteClient).sendDirect") {
		if call, ok := s.Instr.(*ssa.Call); ok {
			direct = call
		}
	}
	if direct == nil {
		c.Bad(rule, "client.(*RemoteClient).Ready#writes-ready", fn.Pos(), "must-call", nil, "Ready does not write its message with sendDirect (result tested)")
		return
	}
	written := errNilEdge(sameCall(direct), true)
	n := 0
	for _, s := range sitesIn(fn) {
		if atomicCallOn(s, "Store", fHSC) {
			n++
			ok, w := mustPass(s.Instr, written)
			c.Decide(ok, rule, "client.(*RemoteClient).Ready#complete-flag-after-write", s.Pos(), "edge-cutset", w,
				"the handshake is marked complete only after the ready message was written", "Ready marks the handshake complete before (or regardless of) writing the ready message: queued requests are released into the connection before / in the middle of the ready message, and a failed write leaves the handshake marked complete")
		}
	}
	for _, b := range fn.Blocks {
		for _, in := range b.Instrs {
			if sel, ok := in.(*ssa.Select); ok {
				for _, st := range sel.States {
					if st.Dir == types.SendOnly && fHSCChan != nil && fromAtomicLoad(st.Chan, fHSCChan) {
						n++
						ok2, w := mustPass(sel, written)
						c.Decide(ok2, rule, "client.(*RemoteClient).Ready#send-thread-notified-after-write", sel.Pos(), "edge-cutset", w,
							"the send thread is released only after the ready message was written", "the send thread is told the handshake is complete before the ready message was written")
					}
				}
			}
		}
	}
	c.Min(rule, "handshake-complete markings in Ready", n, 1)
}

// ruleConstIndexGuarded (C01.R10): on the sync path (internal/spynode, internal/handlers,
// internal/state) an element taken from a slice by a constant index is behind a test that the slice
// is long enough (an empty header locator / header list must not panic the node).
func (c *Check) ruleConstIndexGuarded(rule string, scope ...string) {
	n := 0
	for _, fn := range c.P.FuncsIn(scope...) {
		for _, b := range fn.Blocks {
			for _, in := range b.Instrs {
				ia, ok := in.(*ssa.IndexAddr)
				if !ok {
					continue
				}
				if _, isSl := ia.X.Type().Underlying().(*types.Slice); !isSl {
					continue
				}
				k, isC := constInt(ia.Index)
				if !isC {
					continue
				}
				// slices built right here with a known length (composite literals, make with a constant)
				known := false
				for _, x := range rootsAll(ia.X) {
					switch y := x.(type) {
					case *ssa.Slice:
						if al, ok := y.X.(*ssa.Alloc); ok {
							if arr, ok := al.Type().Underlying().(*types.Pointer).Elem().Underlying().(*types.Array); ok && arr.Len() > k {
								known = true
							}
						}
					case *ssa.MakeSlice:
						if l, ok := constInt(y.Len); ok && l > k {
							known = true
						}
					}
				}
				if known {
					continue
				}
				n++
				isLen := func(v ssa.Value) bool {
					l := lenOf(v)
					return l != nil && (sameExpr(l, ia.X) || sharesRoot(l, ia.X))
				}
				g := lowerBoundEdge(isLen, k+1)
				if k == 0 {
					// a length is never negative: len(s) != 0 gives len(s) >= 1
					nonEmpty := func(iff *ssa.If, br int) bool {
						r, ok := edgeRel(iff, br)
						if !ok || r.Op != token.NEQ {
							return false
						}
						x, y := r.X, r.Y
						if !isLen(x) {
							x, y = y, x
						}
						z, isC := constInt(y)
						return isLen(x) && isC && z == 0
					}
					g = anyEdge(g, nonEmpty)
				}
				ok2, w := mustPass(ia, g)
				c.Touch(fn)
				c.Decide(ok2, rule, fmt.Sprintf("%s#const-index-%d-guarded", c.P.Key(fn), k), ia.Pos(), "bounds edge-cutset", w,
					"the slice is tested to be long enough before element "+fmt.Sprint(k)+" is taken", "element "+fmt.Sprint(k)+" of a slice is taken without a test that the slice is that long: with an empty list (e.g. an empty header locator on a chain of height 0) the node panics")
			}
		}
	}
	if len(scope) == 1 && scope[0] == "storage" {
		// zero on the confirmed tree: the storage readers index by variables behind length tests
		c.Ok(rule, "storage#const-index-accesses", token.NoPos, "edge-cutset", "%d constant-index slice accesses in internal/storage, all behind a length test", n)
		return
	}
	c.Min(rule, "constant-index slice accesses on the sync path", n, 1)
}

// canonicalHashData: v is (derived from) a push-data hash canonicalised in place – a Hash20 local h
// that is filled by `copy(h[:], d)` on one side of a `len(d) == 20` test and by
// `copy(h[:], Hash160(d))` on the other – and returns d. This is pushDataToHash written inline.
func canonicalHashData(v ssa.Value) ssa.Value {
	var al *ssa.Alloc
	for _, r := range append([]ssa.Value{v}, rootsAll(v)...) {
		if a, ok := r.(*ssa.Alloc); ok && strings.HasSuffix(a.Type().String(), "bitcoin.Hash20") {
			al = a
		}
		if u, ok := r.(*ssa.UnOp); ok && u.Op == token.MUL {
			if a, ok := u.X.(*ssa.Alloc); ok && strings.HasSuffix(a.Type().String(), "bitcoin.Hash20") {
				al = a
			}
		}
	}
	if al == nil {
		return nil
	}
	fn := al.Parent()
	var verbatim, hashed ssa.Value
	var vb, hb *ssa.BasicBlock
	var vCopy, hCopy ssa.Instruction
	for _, b := range fn.Blocks {
		for _, in := range b.Instrs {
			call, ok := in.(*ssa.Call)
			if !ok || builtinCall(call, "copy") == nil || len(call.Call.Args) != 2 {
				continue
			}
			dst, ok := call.Call.Args[0].(*ssa.Slice)
			if !ok || dst.X != ssa.Value(al) {
				continue
			}
			src := call.Call.Args[1]
			if h := derivesFromCall(src, "bitcoin.Hash160"); h != nil && len(h.Call.Args) == 1 {
				hashed, hb, hCopy = h.Call.Args[0], b, call
			} else {
				verbatim, vb, vCopy = src, b, call
			}
		}
	}
	if verbatim == nil || hashed == nil || !(sameExpr(verbatim, hashed) || sharesRoot(verbatim, hashed)) {
		return nil
	}
	// the two copies sit on the two sides of a len(d) == 20 test
	for _, b := range fn.Blocks {
		iff, ok := lastIf(b)
		if !ok {
			continue
		}
		r, ok := edgeRel(iff, 0)
		if !ok || (r.Op != token.EQL && r.Op != token.NEQ) {
			continue
		}
		k, isC := constInt(r.Y)
		l := lenOf(r.X)
		if !isC || k != 20 || l == nil || !(sameExpr(l, verbatim) || sharesRoot(l, verbatim)) {
			continue
		}
		eqBr := 0
		if r.Op == token.NEQ {
			eqBr = 1
		}
		onEq := b.Succs[eqBr] == vb || b.Succs[eqBr].Dominates(vb)
		onNe := b.Succs[1-eqBr] == hb || b.Succs[1-eqBr].Dominates(hb)
		// … and each side fills the hash on every path (no length for which it stays zero)
		if onEq && b.Succs[eqBr] != vb {
			onEq, _ = alwaysFollowedBy(b.Succs[eqBr].Instrs[0], []ssa.Instruction{vCopy}, true, nil)
		}
		if onNe && b.Succs[1-eqBr] != hb {
			onNe, _ = alwaysFollowedBy(b.Succs[1-eqBr].Instrs[0], []ssa.Instruction{hCopy}, true, nil)
		}
		if onEq && onNe {
			return verbatim
		}
	}
	return nil
}

// nilErrorSources: the ways this return can report success. direct: its error result is the nil
// constant. edges: it returns a result variable (phi) that is nil over these incoming edges.
func nilErrorSources(ret *ssa.Return) (direct bool, edges []constAt) {
	if len(ret.Results) == 0 {
		return false, nil
	}
	vals := resultValues(ret, len(ret.Results)-1)
	if len(vals) != 1 {
		return false, nil
	}
	v := vals[0]
	if c, ok := v.(*ssa.Const); ok {
		return c.IsNil(), nil
	}
	if _, ok := v.(*ssa.Phi); ok {
		srcs, _ := constSources(ret, v, 0)
		for _, s := range srcs {
			if s.Val.IsNil() {
				edges = append(edges, s)
			}
		}
	}
	return false, edges
}
