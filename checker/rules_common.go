package main

import (
	"strings"
	"fmt"
	"go/types"
	"sort"

	"golang.org/x/tools/go/ssa"
)

// shared lazily-built engines per run
type shared struct {
	le *LockEngine
	cg *CallGraph
}

var sharedOf = map[*Program]*shared{}

func (c *Check) Locks() *LockEngine {
	s := sharedOf[c.P]
	if s == nil {
		s = &shared{}
		sharedOf[c.P] = s
	}
	if s.le == nil {
		s.le = newLockEngine(c.P)
	}
	return s.le
}

func (c *Check) Graph() *CallGraph {
	s := sharedOf[c.P]
	if s == nil {
		s = &shared{}
		sharedOf[c.P] = s
	}
	if s.cg == nil {
		s.cg = newCallGraph(c.P)
	}
	return s.cg
}

// structFields returns all fields of a module struct type except those named in skip.
func (c *Check) structFields(rel, typ string, skip ...string) map[*types.Var]bool {
	n := c.P.NamedType(rel, typ)
	out := map[*types.Var]bool{}
	if n == nil {
		return out
	}
	st, ok := n.Underlying().(*types.Struct)
	if !ok {
		return out
	}
outer:
	for i := 0; i < st.NumFields(); i++ {
		for _, s := range skip {
			if st.Field(i).Name() == s {
				continue outer
			}
		}
		out[st.Field(i)] = true
	}
	return out
}

// entryHeld: locks held at every module call site of fn (for unexported helpers).
func (c *Check) entryHeld(fn *ssa.Function, k lockKey, depth int, visiting map[*ssa.Function]bool) bool {
	if depth > 4 || visiting[fn] {
		return false
	}
	visiting[fn] = true
	defer delete(visiting, fn)
	obj, _ := fn.Object().(*types.Func)
	if obj == nil {
		return false
	}
	sites := c.P.CallersOf(shortName(baselineName(obj)))
	if len(sites) == 0 {
		return false
	}
	le := c.Locks()
	for _, s := range sites {
		if c.P.isTestFile(s.Pos()) {
			continue
		}
		if le.HeldBefore(s.Instr)[k] {
			continue
		}
		if c.entryHeld(s.Fn, k, depth+1, visiting) {
			continue
		}
		return false
	}
	return true
}

// lockset checks that every access to the guarded fields happens with mutex held.
// exceptions: function key -> reason (frozen, one line each).
func (c *Check) lockset(rule string, rel, typ, mutex string, guarded map[*types.Var]bool, scope []string, exceptions map[string]string, min int) {
	mu := c.P.Field(rel, typ, mutex)
	if mu == nil {
		c.Undecided(rule, "anchor:"+rel+"."+typ+"."+mutex, 0, "mutex field not found")
		return
	}
	le := c.Locks()
	n := 0
	type agg struct {
		bad   []Access
		total int
	}
	perFn := map[string]*agg{}
	var order []string
	for _, fn := range c.P.FuncsIn(scope...) {
		accs := fieldAccesses(fn, guarded)
		if len(accs) == 0 {
			continue
		}
		c.Touch(fn)
		key := c.P.Key(fn)
		a := &agg{}
		perFn[key] = a
		order = append(order, key)
		helperHeld := -1
		for _, ac := range accs {
			if ac.Kind == "addr" {
				// address taken and passed elsewhere: treat as a read at this point
			}
			n++
			a.total++
			// fresh object: constructor
			if fa := accessAddr(ac); fa != nil && isFreshObject(fa) {
				continue
			}
			if le.HeldBefore(ac.Instr)[mu] {
				continue
			}
			// hand-over callee: entered with the lock held, releases it before returning
			if le.ReleasesOnly(fn, mu) && le.MinCountBefore(ac.Instr, mu) >= 0 {
				continue
			}
			if helperHeld < 0 {
				helperHeld = 0
				if !ast_IsExported(fn.Name()) && c.entryHeld(fn, mu, 0, map[*ssa.Function]bool{}) {
					helperHeld = 1
				}
			}
			if helperHeld == 1 {
				continue
			}
			a.bad = append(a.bad, ac)
		}
	}
	sort.Strings(order)
	for _, key := range order {
		a := perFn[key]
		obKey := fmt.Sprintf("%s#lockset-%s.%s", key, typ, mutex)
		if len(a.bad) == 0 {
			c.Ok(rule, obKey, c.P.Fn(key).Pos(), "lockset", "%d accesses to %s fields, all under %s", a.total, typ, lockName(mu))
			continue
		}
		if why, ok := exceptions[key]; ok {
			c.Ok(rule, obKey, c.P.Fn(key).Pos(), "lockset", "%d unlocked accesses accepted by frozen exception: %s", len(a.bad), why)
			continue
		}
		var w []string
		for _, b := range a.bad {
			w = append(w, fmt.Sprintf("%s of %s at %s without %s", b.Kind, b.Field.Name(), c.P.Pos(b.Instr.Pos()), lockName(mu)))
			if len(w) >= 6 {
				break
			}
		}
		c.Bad(rule, obKey, a.bad[0].Instr.Pos(), "lockset", w, "%d of %d accesses to %s fields are not protected by %s", len(a.bad), a.total, typ, lockName(mu))
	}
	c.Min(rule, "guarded accesses of "+typ, n, min)
	c.guardedEscapes(rule, mu, typ, guarded, scope)
}

func accessAddr(a Access) *ssa.FieldAddr {
	switch x := a.Instr.(type) {
	case *ssa.Store:
		if fa, ok := x.Addr.(*ssa.FieldAddr); ok {
			return fa
		}
	case *ssa.UnOp:
		if fa, ok := x.X.(*ssa.FieldAddr); ok {
			return fa
		}
	case *ssa.MapUpdate:
		if u, ok := x.Map.(*ssa.UnOp); ok {
			if fa, ok := u.X.(*ssa.FieldAddr); ok {
				return fa
			}
		}
	case *ssa.Call:
		if len(x.Call.Args) > 0 {
			if u, ok := x.Call.Args[0].(*ssa.UnOp); ok {
				if fa, ok := u.X.(*ssa.FieldAddr); ok {
					return fa
				}
			}
		}
	}
	return nil
}

func ast_IsExported(name string) bool {
	return len(name) > 0 && name[0] >= 'A' && name[0] <= 'Z'
}

// whoMayCall checks that the production callers of target are within allowed (keys of top-level functions).
func (c *Check) whoMayCall(rule, target string, allowed map[string]string, minSites int) {
	sites := c.P.CallersOf(target)
	n := 0
	seen := map[string]bool{}
	for _, s := range sites {
		if c.P.isTestFile(s.Pos()) {
			continue
		}
		n++
		caller := c.P.Key(topFn(s.Fn))
		c.Touch(s.Fn)
		obKey := fmt.Sprintf("%s#calls-%s", caller, target)
		if seen[obKey] {
			continue
		}
		seen[obKey] = true
		why, ok := allowed[caller]
		if !ok {
			// a method whose receiver changed between value and pointer is the same caller
			for k, v := range allowed {
				if strings.ReplaceAll(k, "(*", "(") == strings.ReplaceAll(caller, "(*", "(") {
					why, ok = v, true
				}
			}
		}
		if ok {
			c.Ok(rule, obKey, s.Pos(), "who-may-call", "allowed caller (%s)", why)
		} else {
			c.Bad(rule, obKey, s.Pos(), "who-may-call", nil, "%s is called from %s, which is not in the allowed set %v", target, caller, keysOf(allowed))
		}
	}
	c.Min(rule, "call sites of "+target, n, minSites)
}

func keysOf(m map[string]string) []string {
	var ks []string
	for k := range m {
		ks = append(ks, k)
	}
	sort.Strings(ks)
	return ks
}

// isErrorReturnBlock: block ends in a return whose error result is not the nil constant.
func isErrorReturnBlock(b *ssa.BasicBlock) bool {
	if len(b.Instrs) == 0 {
		return false
	}
	r, ok := b.Instrs[len(b.Instrs)-1].(*ssa.Return)
	if !ok {
		return false
	}
	if !resultIsError(b.Parent()) {
		return false
	}
	isNil, known := errIsNilReturn(r)
	if !known || isNil {
		return false
	}
	// not the nil constant: an error return only if the value is known to be a non-nil error (a fresh or
	// wrapped error, a sentinel, an error tested non-nil on the way); `return ok, store.Write(…)` or a
	// result variable that may be nil is an ordinary return
	for _, v := range resultValues(r, len(r.Results)-1) {
		if !knownNonNil(v, b, 0) {
			return false
		}
	}
	return true
}
