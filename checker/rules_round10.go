package main

// Rules added after seeding round 8 (✪ in DESIGN.md). The round asked for well-meant pull requests of three
// kinds – a performance optimisation (cache, skip, early exit, reuse), an error-handling / robustness change
// (log and go on, retry, default, limit) and a small feature (new option, case, accessor, notification).
// Most of them add code the earlier rules have no anchor in; what they have in common is that an
// existing obligation is quietly bypassed: an entry no longer kept, a failure no longer returned, a
// collection written or a callback made from a new place, an answer taken from a new field.

import (
	"fmt"
	"go/token"
	"go/types"
	"os"
	"path/filepath"
	"sort"
	"strings"

	"golang.org/x/tools/go/ssa"
)

// ---------------------------------------------------------------------------------------------
// E12: failures that rejoin the success path

// sentinelEdgeOf: the edge shows that the error of call equals a package-level sentinel.
func sentinelEdgeOf(call *ssa.Call) EdgePred {
	return equalEdge(func(a, b ssa.Value) bool {
		isErr := func(v ssa.Value) bool {
			if errOf(v) == call {
				return true
			}
			if cl, ok := v.(*ssa.Call); ok && strings.HasSuffix(calleeName(&cl.Call), "pkg/errors.Cause") && len(cl.Call.Args) == 1 && errOf(cl.Call.Args[0]) == call {
				return true
			}
			return false
		}
		isSentinel := func(v ssa.Value) bool {
			u, ok := v.(*ssa.UnOp)
			if !ok || u.Op != token.MUL {
				return false
			}
			_, isG := u.X.(*ssa.Global)
			return isG
		}
		return (isErr(a) && isSentinel(b)) || (isErr(b) && isSentinel(a))
	}, true)
}

// swallowCounts: per "callee\tlevel", how many error tests of fn have a failure branch from which a
// nil-error return of fn can be reached: level S = only over an edge that shows the error is a
// sentinel ("not found means empty"), level A = also otherwise (logged and carried on).
func swallowCounts(fn *ssa.Function) (map[string]int, map[string]token.Pos) {
	out := map[string]int{}
	pos := map[string]token.Pos{}
	if fn == nil || fn.Blocks == nil || !returnsErrorType(fn) {
		return out, pos
	}
	var nilRets []*ssa.BasicBlock
	for _, b := range fn.Blocks {
		if ret, ok := b.Instrs[len(b.Instrs)-1].(*ssa.Return); ok {
			if isNil, known := errIsNilReturn(ret); known && isNil {
				nilRets = append(nilRets, b)
			}
		}
	}
	// (feasible paths only: `if err == nil { … }; if err != nil { return err }` tests the same error
	// twice, the failure does not get past the second test)
	reachesFrom := func(pred, from *ssa.BasicBlock, guard EdgePred) bool {
		for _, rb := range nilRets {
			if ok, _ := reachFromNode(mkNode(pred, from), rb, guard, nil); ok {
				return true
			}
		}
		return false
	}
	// A: the branch taken when the call failed reaches a successful return over no sentinel test
	seen := map[*ssa.Call]bool{}
	var calls []*ssa.Call
	for _, es := range errorSites(fn) {
		if !seen[es.call] {
			calls = append(calls, es.call)
		}
		if seen[es.call] {
			continue
		}
		fail := es.iff.Block().Succs[es.failBr]
		if reachesFrom(es.iff.Block(), fail, sentinelEdgeOf(es.call)) {
			seen[es.call] = true
			k := recordedCalleeName(&es.call.Call) + "\tA"
			out[k]++
			pos[k] = es.iff.Pos()
		}
	}
	// S: a test of the call's error against a sentinel whose true edge reaches a successful return
	// (one per call and sentinel)
	for _, s := range sitesIn(fn) {
		call := s.Value()
		if call == nil || !resultIsErrorSig(call.Call.Signature()) {
			continue
		}
		if _, isB := call.Call.Value.(*ssa.Builtin); isB {
			continue
		}
		if isErrorConstructor(calleeName(s.CC)) {
			continue
		}
		sentinels := map[string]bool{}
		for _, b := range fn.Blocks {
			iff, ok := lastIf(b)
			if !ok {
				continue
			}
			for br := 0; br < 2; br++ {
				if !sentinelEdgeOf(call)(iff, br) {
					continue
				}
				g := sentinelNameOf(iff)
				if sentinels[g] || !reachesFrom(b, b.Succs[br], nil) {
					continue
				}
				sentinels[g] = true
				k := recordedCalleeName(&call.Call) + "\tS"
				out[k]++
				pos[k] = iff.Pos()
			}
		}
	}
	return out, pos
}

// sentinelNameOf: the package-level variable the condition compares with.
func sentinelNameOf(iff *ssa.If) string {
	name := ""
	var look func(v ssa.Value, d int)
	look = func(v ssa.Value, d int) {
		if v == nil || d > 4 {
			return
		}
		switch x := v.(type) {
		case *ssa.UnOp:
			if g, ok := x.X.(*ssa.Global); ok {
				name = g.String()
				return
			}
			look(x.X, d+1)
		case *ssa.BinOp:
			look(x.X, d+1)
			look(x.Y, d+1)
		case *ssa.Call:
			for _, a := range x.Call.Args {
				look(a, d+1)
			}
		}
	}
	look(iff.Cond, 0)
	return name
}

var swallowBaselineCache map[string]int

func swallowBaseline() map[string]int {
	if swallowBaselineCache != nil {
		return swallowBaselineCache
	}
	swallowBaselineCache = map[string]int{}
	data, err := os.ReadFile(filepath.Join(verifDirGlobal, "checker", "baseline_swallow.txt"))
	if err != nil {
		return swallowBaselineCache
	}
	for _, l := range strings.Split(string(data), "\n") {
		if strings.HasPrefix(l, "#") || strings.TrimSpace(l) == "" {
			continue
		}
		f := strings.Split(l, "\t")
		if len(f) == 4 {
			n := 0
			fmt.Sscanf(f[3], "%d", &n)
			swallowBaselineCache[f[0]+"\t"+f[1]+"\t"+f[2]] = n
		}
	}
	return swallowBaselineCache
}

func writeSwallowBaseline(P *Program, out string) error {
	var lines []string
	for k, fn := range P.Funcs {
		if fn == nil || fn.Blocks == nil {
			continue
		}
		cnt, _ := swallowCounts(fn)
		for ck, n := range cnt {
			lines = append(lines, fmt.Sprintf("%s\t%s\t%d", k, ck, n))
		}
	}
	sort.Strings(lines)
	hdr := "# per function of the confirmed tree: `<function>\\t<callee>\\t<S|A>\\t<n>`: n error tests of <callee> whose failure branch can reach a\n# nil-error return of the function (S: only over an edge showing the error is a sentinel, A: also otherwise); rule E12 reports more\n"
	return os.WriteFile(out, []byte(hdr+strings.Join(lines, "\n")+"\n"), 0o644)
}

// swallowPkgGrew: over all functions of fn's package, more error tests of callee let the failure reach
// a successful return than on the confirmed tree (code moved between functions of a package does
// not count).
func (c *Check) swallowPkgGrew(fn *ssa.Function, callee string) bool {
	pkg := ""
	if k := c.P.Key(fn); strings.Contains(k, ".") {
		pkg = k[:strings.Index(k, ".")]
	}
	cur := 0
	for k, g := range c.P.Funcs {
		if g == nil || g.Blocks == nil || !strings.HasPrefix(k, pkg+".") {
			continue
		}
		cnt, _ := swallowCounts(g)
		cur += cnt[callee+"\tA"] + cnt[callee+"\tS"]
	}
	base := 0
	for k, n := range swallowBaseline() {
		f := strings.Split(k, "\t")
		if len(f) == 3 && strings.HasPrefix(f[0], pkg+".") && f[1] == callee {
			base += n
		}
	}
	return cur > base
}

// ruleFailuresStayFailures (E12): compared with the confirmed tree, no further error test of a
// function lets its failure branch reach a successful return (an error that is now logged and
// skipped, replaced by a default, or treated as the end of the data), and none that did so only for a
// sentinel does so for every error now.
func (c *Check) ruleFailuresStayFailures(rule string, fns []*ssa.Function) {
	base := swallowBaseline()
	n := 0
	for _, fn := range fns {
		if fn == nil || fn.Blocks == nil || fn.Parent() != nil {
			continue
		}
		key := c.P.Key(fn)
		if key == "" || !baselineHasFunc(key) {
			continue
		}
		cnt, pos := swallowCounts(fn)
		// per callee: A may not grow; S+A may not grow
		callees := map[string]bool{}
		for k := range cnt {
			callees[strings.Split(k, "\t")[0]] = true
		}
		for callee := range callees {
			n++
			a, s := cnt[callee+"\tA"], cnt[callee+"\tS"]
			ba, bs := base[key+"\t"+callee+"\tA"], base[key+"\t"+callee+"\tS"]
			if a+s > ba+bs && c.swallowPkgGrew(fn, callee) {
				p := pos[callee+"\tA"]
				if !p.IsValid() {
					p = pos[callee+"\tS"]
				}
				what := "no failure of it did on the confirmed tree"
				if ba+bs > 0 {
					what = fmt.Sprintf("on the confirmed tree %d did (%d of them only for a sentinel error)", ba+bs, bs)
				}
				c.Bad(rule, fmt.Sprintf("%s#failure-of-%s-stays-a-failure", key, callee), p, "error-branch exits", nil,
					"a failure of %s in %s can now end in a successful return (%d error tests, %d of them only for a sentinel error; %s): the error is skipped / defaulted and the caller carries on with partial or stale data", callee, key, a+s, s, what)
				c.Touch(fn)
			}
		}
	}
	c.Ok(rule, "scope#failures-stay-failures", token.NoPos, "error-branch exits", "%d (function, callee) pairs with a failure branch that rejoins success, none beyond the confirmed tree", n)
}

var _ = types.Identical

// ---------------------------------------------------------------------------------------------
// the unconfirmed set keeps every entry (C03.R22 / C06.R14 / C07.R15 / C11.R13)

// ruleUnconfirmedSetKeepsEveryEntry: the loops that (re)build the unconfirmed set – Load reading the
// records, FinalizeUnconfirmed / SetBlock rebuilding the map from a list – store one entry in every
// iteration that does not leave the loop. The set is the persistent record of what was delivered
// and what was reported unsafe: an entry dropped from it (an expiry, a "damaged" record skipped) is
// delivered again as new when it confirms, and gets no cancel update.
func (c *Check) ruleUnconfirmedSetKeepsEveryEntry(rule string) {
	n := 0
	for _, fn := range c.P.FuncsIn("storage") {
		if fn.Blocks == nil || fn.Signature.Recv() == nil || !strings.HasSuffix(fn.Signature.Recv().Type().String(), "storage.TxRepository") {
			continue
		}
		isEntryStore := func(in ssa.Instruction) int {
			mu, ok := in.(*ssa.MapUpdate)
			if !ok {
				return 0
			}
			m, ok := mu.Map.Type().Underlying().(*types.Map)
			if !ok || !strings.HasSuffix(m.Elem().String(), "storage.unconfirmedTx") {
				return 0
			}
			return 1
		}
		seen := map[*ssa.BasicBlock]bool{}
		for _, b := range fn.Blocks {
			for _, in := range b.Instrs {
				if isEntryStore(in) == 0 {
					continue
				}
				h := loopHeaderOf(b)
				if h == nil || seen[h] {
					continue
				}
				seen[h] = true
				n++
				counts := iterationCounts(h, isEntryStore)
				_, skips := counts[0]
				var w []string
				if skips {
					w = pathWitness(fn, counts[0])
				}
				// a loop that reads records: what matters is that a record read successfully is stored
				// (how the loop notices the end of the data - break, a flag - is its own business)
				for _, es := range errorSites(fn) {
					if !strings.HasSuffix(calleeName(&es.call.Call), "readUnconfirmedTx") || !loopBody(h)[es.call.Block()] {
						continue
					}
					okB := es.iff.Block().Succs[1-es.failBr]
					cutS := map[*ssa.BasicBlock]bool{}
					for bb := range loopBody(h) {
						for _, x := range bb.Instrs {
							if isEntryStore(x) == 1 {
								cutS[bb] = true
							}
						}
					}
					skips, w = false, nil
					if !cutS[okB] {
						if reach, path := reachFromNode(mkNode(es.iff.Block(), okB), h, nil, cutS); reach {
							skips, w = true, pathWitness(fn, path)
						}
					}
				}
				c.Decide(!skips && len(counts) > 0, rule, fmt.Sprintf("%s#every-entry-kept@%s", c.P.Key(fn), loopName(h)), loopPos(h), "per-iteration event count", w,
					"every iteration that stays in the loop stores its entry in the unconfirmed set",
					"an iteration of the loop that builds the unconfirmed set can skip storing its entry (an expiry, a record judged damaged): the set is the record of what was delivered and what was reported unsafe, so the dropped tx is delivered a second time as new when it is seen or confirmed again, is never cancelled, and may be reported safe after unsafe")
				c.Touch(fn)
			}
		}
	}
	c.Min(rule, "loops building the unconfirmed set", n, 3)
}

// ---------------------------------------------------------------------------------------------
// recorded writers of a field (C07.R16 unconfirmedTx.time, C14.R16 MemPool.requests)

func looseKey(k string) string { return strings.ReplaceAll(k, "*", "") }

// ruleFieldWriters: the field is written (stored, map-updated, deleted from) only by the recorded
// functions; helpers new to the tree are expanded into their callers first, so a new setter shows
// up in the function that calls it.
func (c *Check) ruleFieldWriters(rule, rel, typ, field string, allowed map[string]string, consequence string) {
	f := c.P.Field(rel, typ, field)
	if f == nil {
		c.Undecided(rule, "anchor:"+rel+"."+typ+"."+field, token.NoPos, "field not found")
		return
	}
	loose := map[string]bool{}
	for k := range allowed {
		loose[looseKey(k)] = true
	}
	n := 0
	for _, fn := range c.P.FuncsIn("state", "storage", "spynode", "handlers") {
		if fn.Blocks == nil {
			continue
		}
		for _, ac := range fieldAccesses(fn, map[*types.Var]bool{f: true}) {
			if !ac.Write {
				continue
			}
			if fa := accessAddr(ac); fa != nil && isFreshObject(fa) {
				continue
			}
			n++
			key := c.P.Key(fn)
			if fn.Parent() != nil {
				key = c.P.Key(fn.Parent())
			}
			okv := loose[looseKey(key)]
			c.Decide(okv, rule, fmt.Sprintf("%s#writes-%s.%s", key, typ, field), ac.Instr.Pos(), "who-may-write", nil,
				"recorded writer of "+typ+"."+field,
				typ+"."+field+" is written in "+key+", which is not one of its recorded writers ("+strings.Join(keysOf(allowed), ", ")+"): "+consequence)
			c.Touch(fn)
		}
	}
	c.Min(rule, "writes of "+typ+"."+field, n, 1)
}

// ruleHandlerCallbackCallers: the client.Handler callback is invoked only from the recorded functions.
func (c *Check) ruleHandlerCallbackCallers(rule, method string, allowed map[string]string, consequence string) {
	loose := map[string]bool{}
	for k := range allowed {
		loose[looseKey(k)] = true
	}
	n := 0
	for _, fn := range c.P.FuncsIn("spynode") {
		if fn.Blocks == nil {
			continue
		}
		for _, s := range c.handlerInvokes(fn, method) {
			n++
			key := c.P.Key(fn)
			if fn.Parent() != nil {
				key = c.P.Key(fn.Parent())
			}
			c.Decide(loose[looseKey(key)], rule, fmt.Sprintf("%s#invokes-%s", key, method), s.Pos(), "who-may-call", nil,
				"recorded caller of "+method,
				method+" is invoked from "+key+", outside its recorded callers ("+strings.Join(keysOf(allowed), ", ")+"): "+consequence)
			c.Touch(fn)
		}
	}
	c.Min(rule, method+" invocations", n, len(allowed))
}

// ---------------------------------------------------------------------------------------------
// decode loops keep every element (C04.R12 / C15.R10)

// ruleDecodeLoopsKeepEveryElement: in the readers of pkg/client and internal/storage, a loop that
// reads elements from the stream and appends them stores one element in every iteration that stays
// in the loop: an element read and dropped (a "stray" entry filtered out while decoding) makes the
// decoded value differ from the encoded one.
func (c *Check) ruleDecodeLoopsKeepEveryElement(rule string, min int) {
	n := 0
	for _, fn := range c.P.FuncsIn("client", "storage") {
		if fn.Blocks == nil || fn.Parent() != nil {
			continue
		}
		nm := fn.Name()
		if !(strings.HasPrefix(nm, "Deserialize") || strings.HasPrefix(nm, "Read") || strings.HasPrefix(nm, "read")) {
			continue
		}
		for _, h := range loopHeadersOf(fn) {
			body := loopBody(h)
			reads := false
			var apps []*ssa.Call
			for b := range body {
				if hs := enclosingLoops(b); len(hs) == 0 || hs[0] != h {
					continue
				}
				for _, in := range b.Instrs {
					call, ok := in.(*ssa.Call)
					if !ok {
						continue
					}
					if builtinCall(call, "append") != nil {
						apps = append(apps, call)
						continue
					}
					for _, a := range call.Call.Args {
						if strings.HasSuffix(a.Type().String(), "io.Reader") || strings.HasSuffix(a.Type().String(), "bytes.Buffer") || strings.HasSuffix(a.Type().String(), "bytes.Reader") {
							reads = true
						}
					}
					if call.Call.IsInvoke() && strings.HasSuffix(call.Call.Value.Type().String(), "io.Reader") {
						reads = true
					}
				}
			}
			if !reads || len(apps) == 0 {
				continue
			}
			n++
			isApp := func(in ssa.Instruction) int {
				for _, a := range apps {
					if ssa.Instruction(a) == in {
						return 1
					}
				}
				return 0
			}
			counts := iterationCounts(h, isApp)
			_, skips := counts[0]
			var w []string
			if skips {
				w = pathWitness(fn, counts[0])
			}
			c.Decide(!skips, rule, fmt.Sprintf("%s#decoded-elements-kept@%s", c.P.Key(fn), loopName(h)), loopPos(h), "per-iteration event count", w,
				"every iteration that stays in the decode loop appends the element it read",
				"an iteration of the decode loop can read an element and not keep it: the decoded list is shorter than the encoded one (a merkle proof loses duplicated-layer entries and no longer verifies)")
			c.Touch(fn)
		}
	}
	c.Min(rule, "decode loops that append what they read", n, min)
}

// ---------------------------------------------------------------------------------------------
// C05.R19 / C06.R15: every input is looked up in the spender map

func (c *Check) ruleConflictingConsultsEveryInput(rule string) {
	fn := c.Fn(rule, "state.(*MemPool).Conflicting")
	fIn := c.P.Field("state", "MemPool", "inputs")
	if fn == nil {
		return
	}
	if fIn == nil {
		c.Undecided(rule, "anchor:state.MemPool.inputs", fn.Pos(), "field not found")
		return
	}
	isLookup := func(in ssa.Instruction) int {
		if lk, ok := in.(*ssa.Lookup); ok && loadOfField(lk.X, fIn) != nil {
			return 1
		}
		return 0
	}
	n := 0
	seen := map[*ssa.BasicBlock]bool{}
	for _, b := range fn.Blocks {
		for _, in := range b.Instrs {
			if isLookup(in) == 0 {
				continue
			}
			hs := enclosingLoops(b)
			if len(hs) == 0 {
				continue
			}
			h := hs[len(hs)-1] // outermost: the loop over the inputs
			if seen[h] {
				continue
			}
			seen[h] = true
			n++
			counts := iterationCounts(h, isLookup)
			_, skips := counts[0]
			var w []string
			if skips {
				w = pathWitness(fn, counts[0])
			}
			c.Decide(!skips, rule, "state.(*MemPool).Conflicting#every-input-looked-up", loopPos(h), "per-iteration event count", w,
				"every input of the tx is looked up in the spender map",
				"an input of a confirmed tx can be skipped without being looked up in the spender map (a pre-filter that answers 'nothing spends this'): a mempool tx spending the same outpoint is neither evicted nor cancelled")
		}
	}
	c.Min(rule, "loops of Conflicting that consult the spender map", n, 1)
}

// ---------------------------------------------------------------------------------------------
// C03.R23 / C08.R13–R14: relevance

// ruleRelevanceScansEverything: in IsRelevant (a) `false` is returned only outside every loop (after
// both families of scripts were walked), (b) every push data parsed successfully reaches the
// hash-and-compare step before the loop goes on.
func (c *Check) ruleRelevanceScansEverything(ruleA, ruleB string) {
	fn := c.Fn(ruleA, "spynode.(*Node).IsRelevant")
	if fn == nil {
		return
	}
	n := 0
	for _, b := range fn.Blocks {
		ret, ok := b.Instrs[len(b.Instrs)-1].(*ssa.Return)
		if !ok || len(ret.Results) != 1 {
			continue
		}
		type falseAt struct{ at *ssa.BasicBlock }
		var falses []falseAt
		if u, isU := ret.Results[0].(*ssa.UnOp); isU && u.Op == token.MUL {
			if al, isA := u.X.(*ssa.Alloc); isA {
				// result spilled for the deferred unlock: where `false` is written into the slot
				for _, ref := range *al.Referrers() {
					if st, ok := ref.(*ssa.Store); ok && st.Addr == ssa.Value(al) {
						for _, leaf := range constLeaves([]ssa.Value{st.Val}) {
							if bv, isB := isConstBool(leaf.val); isB && !bv {
								at := st.Block()
								if leaf.pred != nil {
									at = leaf.pred
								}
								falses = append(falses, falseAt{at})
							}
						}
					}
				}
			}
		}
		if len(falses) == 0 {
			for _, leaf := range constLeaves(resultValues(ret, 0)) {
				if bv, isB := isConstBool(leaf.val); isB && !bv {
					at := b
					if leaf.pred != nil {
						at = leaf.pred
					}
					falses = append(falses, falseAt{at})
				}
			}
		}
		for _, fa := range falses {
			n++
			at := fa.at
			// decided inside a loop: in its body, or in a block that leaves it from the middle of its
			// body (dominated by a body block other than the header)
			inLoopNow := len(enclosingLoops(at)) > 0
			for _, h := range loopHeadersOf(fn) {
				for x := range loopBody(h) {
					if x != h && x.Dominates(at) {
						inLoopNow = true
					}
				}
			}
			c.Decide(!inLoopNow, ruleA, fmt.Sprintf("spynode.(*Node).IsRelevant#false-only-after-the-walks@%d", n), ret.Pos(), "cfg-structure", nil,
				"`false` is decided outside the script loops",
				"IsRelevant can answer false from inside a script loop (e.g. on a script that does not parse): the remaining inputs / outputs are never looked at, and a tx carrying a subscribed push data behind that point is not delivered")
		}
	}
	c.Min(ruleA, "false answers of IsRelevant", n, 1)
	// (b)
	var hashing []ssa.Instruction
	for _, s := range sitesIn(fn) {
		nm := calleeName(s.CC)
		if strings.HasSuffix(nm, "spynode.pushDataToHash") || strings.HasSuffix(nm, "bitcoin.Hash160") {
			hashing = append(hashing, s.Instr)
		}
	}
	cut := map[*ssa.BasicBlock]bool{}
	for _, hI := range hashing {
		cut[hI.Block()] = true
	}
	// the comparison with the subscriptions itself (the hash may be computed in place)
	if fH := c.P.Field("spynode", "Node", "pushDataHashes"); fH != nil {
		for _, lh := range loopsRangingOver(fn, func(v ssa.Value) bool { return mentionsField(v, fH) }) {
			cut[lh] = true
		}
	}
	m := 0
	for _, es := range errorSites(fn) {
		if !strings.HasSuffix(calleeName(&es.call.Call), "ParsePushDataScript") {
			continue
		}
		h := loopHeaderOf(es.call.Block())
		if h == nil {
			continue
		}
		m++
		okB := es.iff.Block().Succs[1-es.failBr]
		bad := false
		var w []string
		if !cut[okB] {
			if reach, path := reachAvoid2(okB, h, nil, cut); reach {
				bad = true
				w = pathWitness(fn, path)
			}
		}
		c.Decide(!bad, ruleB, fmt.Sprintf("spynode.(*Node).IsRelevant#every-push-compared@%d", m), es.call.Pos(), "must-pass-through", w,
			"every push data that parsed is hashed and compared before the next one is read",
			"a push data that parsed can be skipped without being hashed and compared with the subscriptions (a size / shape pre-filter): a subscription the filter does not expect is accepted but never matches, and matching txs are not delivered")
	}
	c.Min(ruleB, "push data parse sites in IsRelevant", m, 2)
}

// ruleSubscriptionHashProvenance (C08.R15): the hash stored for a subscription, and the one looked for
// when unsubscribing, is the push data itself (20 bytes) or its Hash160, nothing decoded out of it.
func (c *Check) ruleSubscriptionHashProvenance(rule string) {
	fH := c.P.Field("spynode", "Node", "pushDataHashes")
	if fH == nil {
		c.Undecided(rule, "anchor:spynode.Node.pushDataHashes", token.NoPos, "field not found")
		return
	}
	n := 0
	for _, k := range []string{"spynode.(*Node).SubscribePushDatas", "spynode.(*Node).UnsubscribePushDatas"} {
		fn := c.Fn(rule, k)
		if fn == nil {
			continue
		}
		var vals []ssa.Value
		for _, st := range storesToField(fn, fH) {
			if call := builtinCall(st.Val, "append"); call != nil {
				vals = append(vals, appendedValues(call)...)
			}
		}
		for _, s := range sitesIn(fn) {
			if o := calleeObj(s.CC); o != nil && o.Name() == "Equal" && len(s.CC.Args) == 2 {
				vals = append(vals, s.CC.Args[1])
			}
		}
		for _, v := range vals {
			n++
			bad := ""
			for _, r := range rootsAll(v) {
				call, ok := r.(*ssa.Call)
				if !ok {
					continue
				}
				if _, isB := call.Call.Value.(*ssa.Builtin); isB {
					continue
				}
				nm := calleeName(&call.Call)
				if strings.HasSuffix(nm, "spynode.pushDataToHash") || strings.HasSuffix(nm, "bitcoin.Hash160") {
					continue
				}
				bad = shortName(nm)
			}
			c.Decide(bad == "", rule, fmt.Sprintf("%s#hash-is-the-push-data-or-its-hash160@%d", k, n), v.Pos(), "provenance", nil,
				"the subscription hash derives from the push data by copy or Hash160 only",
				"the hash (un)subscribed for a push data can come out of "+bad+" (some decoding of the value): raw data and its hash are no longer equivalent subscriptions, a tx pushing that data is missed and another one matches")
		}
	}
	c.Min(rule, "subscription hashes in (Un)SubscribePushDatas", n, 1)
}

// ---------------------------------------------------------------------------------------------
// C03.R24 / C04.R13: "already confirmed" needs the block to be in the chain

func (c *Check) ruleAlreadyConfirmedNeedsBlockInChain(rule string) {
	fn := c.Fn(rule, "spynode.(*Node).processUnconfirmedTx")
	fProof := c.P.Field("client", "TxState", "MerkleProof")
	if fn == nil {
		return
	}
	if fProof == nil {
		c.Undecided(rule, "anchor:client.TxState.MerkleProof", fn.Pos(), "field not found")
		return
	}
	hasProof := nilEdge(func(v ssa.Value) bool { return loadOfField(v, fProof) != nil }, false)
	inChain := callEdge(true, -1, nil, "(*storage.BlockRepository).Contains")
	n := 0
	for _, b := range fn.Blocks {
		ret, ok := b.Instrs[len(b.Instrs)-1].(*ssa.Return)
		if !ok {
			continue
		}
		if isNil, known := errIsNilReturn(ret); !known || !isNil {
			continue
		}
		if behind, _ := mustPass(ret, hasProof); !behind {
			continue
		}
		n++
		okv, w := mustPass(ret, inChain)
		c.Decide(okv, rule, fmt.Sprintf("spynode.(*Node).processUnconfirmedTx#already-confirmed-only-if-block-in-chain@%d", n), ret.Pos(), "edge-cutset", w,
			"the 'already confirmed' shortcut is taken only when the proof's block is still in the chain",
			"a tx is treated as already confirmed because a merkle proof is stored, without checking that the proof's block is still in the chain: after that block was orphaned the re-announced tx is dropped from tracking, its new confirmation is never notified, and the stored proof is for a block the node no longer holds")
	}
	c.Min(rule, "'already confirmed' shortcuts in processUnconfirmedTx", n, 1)
}

// ---------------------------------------------------------------------------------------------
// C12.R13: an untrusted peer cannot fail the trusted path

func (c *Check) ruleUntrustedErrorsStayLocal(rule string) {
	fn := c.Fn(rule, "spynode.(*Node).CleanupBlock")
	if fn == nil {
		return
	}
	n := 0
	for _, b := range fn.Blocks {
		ret, ok := b.Instrs[len(b.Instrs)-1].(*ssa.Return)
		if !ok || len(ret.Results) == 0 {
			continue
		}
		n++
		bad := false
		seenV := map[ssa.Value]bool{}
		var look func(v ssa.Value, d int)
		look = func(v ssa.Value, d int) {
			if v == nil || seenV[v] || d > 8 {
				return
			}
			seenV[v] = true
			for _, r := range rootsAll(v) {
				call, ok := r.(*ssa.Call)
				if !ok {
					continue
				}
				if strings.Contains(calleeName(&call.Call), "spynode.UntrustedNode)") {
					bad = true
				}
				if isErrorConstructor(calleeName(&call.Call)) && len(call.Call.Args) > 0 {
					look(call.Call.Args[0], d+1)
				}
			}
		}
		for _, v := range resultValues(ret, len(ret.Results)-1) {
			look(v, 0)
		}
		c.Decide(!bad, rule, fmt.Sprintf("spynode.(*Node).CleanupBlock#untrusted-error-not-returned@%d", n), ret.Pos(), "provenance", nil,
			"no error of an untrusted node's method is returned from the trusted block path",
			"Node.CleanupBlock returns an error that comes from a method of an untrusted node: a peer that is disconnecting (or misbehaving) makes ProcessBlock fail, block processing ends and the trusted chain is no longer followed")
	}
	c.Min(rule, "returns of Node.CleanupBlock", n, 1)
}

// ---------------------------------------------------------------------------------------------
// C13.R21: membership getters answer from the list they are about

func (c *Check) ruleGetterConsultsPrimary(rule, fnKey, field string) {
	fn := c.Fn(rule, fnKey)
	f := c.P.Field("state", "State", field)
	if fn == nil {
		return
	}
	if f == nil {
		c.Undecided(rule, "anchor:state.State."+field, fn.Pos(), "field not found")
		return
	}
	reads := false
	others := map[*types.Var]bool{}
	fLock := c.P.Field("state", "State", "lock")
	for _, ac := range fieldAccesses(fn, c.structFields("state", "State", "lock")) {
		if ac.Field == f {
			reads = true
		} else if ac.Field != fLock {
			others[ac.Field] = true
		}
	}
	if reads {
		c.Ok(rule, fnKey+"#answers-from-"+field, fn.Pos(), "field reads", "the getter reads %s", field)
		return
	}
	// it answers from other fields: an index; every change of the list must then update the index
	bad := ""
	for _, g := range c.P.FuncsIn("state") {
		if g.Blocks == nil {
			continue
		}
		var idxWrites []ssa.Instruction
		for _, ac := range fieldAccesses(g, others) {
			if ac.Write {
				idxWrites = append(idxWrites, ac.Instr)
			}
		}
		for _, st := range storesToField(g, f) {
			if fa, ok := st.Addr.(*ssa.FieldAddr); ok && isFreshObject(fa) {
				continue
			}
			okv := false
			if len(idxWrites) > 0 {
				if p, _ := alwaysPrecededBy(st, idxWrites); p {
					okv = true
				} else if fo, _ := alwaysFollowedBy(st, idxWrites, false, isErrorReturnBlock); fo {
					okv = true
				}
			}
			if !okv {
				bad = fmt.Sprintf("%s at %s", c.P.Key(g), c.P.Pos(st.Pos()))
			}
		}
	}
	c.Decide(bad == "", rule, fnKey+"#answers-from-"+field, fn.Pos(), "coupled-updates", []string{bad},
		"the getter answers from an index that every change of "+field+" also updates",
		fnKey+" no longer reads "+field+" but answers from another field, and "+field+" is changed ("+bad+") without that field being updated on every path: the answer goes stale (a block counts as 'to be requested' after its branch was cut off, and is never queued again)")
}

// ---------------------------------------------------------------------------------------------
// C14.R17: the tracker is scanned on every check

func (c *Check) ruleTrackerScannedOnEveryCheck(rule string) {
	fn := c.Fn(rule, "state.(*TxTracker).Check")
	fStop := c.P.Field("state", "TxTracker", "stop")
	fIDs := c.P.Field("state", "TxTracker", "txids")
	if fn == nil {
		return
	}
	if fStop == nil || fIDs == nil {
		c.Undecided(rule, "anchor:state.TxTracker.stop/txids", fn.Pos(), "fields not found")
		return
	}
	var scans []ssa.Instruction
	for _, b := range fn.Blocks {
		for _, in := range b.Instrs {
			if r, ok := in.(*ssa.Range); ok && loadOfField(r.X, fIDs) != nil {
				scans = append(scans, r)
			}
		}
	}
	stopping := func(iff *ssa.If, br int) bool {
		if iff.Block() != nil && br < len(iff.Block().Succs) && !isExitBlock(iff.Block().Succs[br]) {
			return false
		}
		found := false
		var look func(v ssa.Value, d int)
		look = func(v ssa.Value, d int) {
			if v == nil || d > 6 || found {
				return
			}
			switch x := v.(type) {
			case *ssa.FieldAddr:
				if fieldOfAddr(x) == fStop {
					found = true
				}
			case *ssa.UnOp:
				look(x.X, d+1)
			case *ssa.Extract:
				look(x.Tuple, d+1)
			case *ssa.TypeAssert:
				look(x.X, d+1)
			case *ssa.Phi:
				for _, e := range x.Edges {
					look(e, d+1)
				}
				// a flag helper written out (`if !ok { return true }; if stopped { return true }; return
				// false`): the constants are chosen by tests of the field
				for _, p := range x.Block().Preds {
					for q, k := p, 0; q != nil && k < 4; q, k = q.Idom(), k+1 {
						if qi, ok := lastIf(q); ok {
							look(qi.Cond, d+1)
						}
					}
				}
			case *ssa.Call:
				for _, a := range x.Call.Args {
					look(a, d+1)
				}
			}
		}
		look(iff.Cond, 0)
		return found
	}
	n := 0
	for _, b := range fn.Blocks {
		ret, ok := b.Instrs[len(b.Instrs)-1].(*ssa.Return)
		if !ok {
			continue
		}
		if isNil, known := errIsNilReturn(ret); !known || !isNil {
			continue
		}
		n++
		okv, w := len(scans) > 0, []string(nil)
		if okv {
			okv, w = mustPassOrHappen(ret, stopping, scans)
		}
		c.Decide(okv, rule, fmt.Sprintf("state.(*TxTracker).Check#scans-before-returning@%d", n), ret.Pos(), "must-pass-through", w,
			"every successful return has walked the announced txids (or the tracker is stopping)",
			"TxTracker.Check can return without walking the announced txids (a 'nothing new' shortcut): what changes between checks is the time, so an announced tx whose request window expired is never requested from this peer")
	}
	c.Min(rule, "successful returns of TxTracker.Check", n, 1)
}

// ---------------------------------------------------------------------------------------------
// C15.R11: one spent output per input

func (c *Check) ruleSpentOutputsPerInput(rule string) {
	fOut := c.P.Field("client", "Tx", "Outputs")
	var fn *ssa.Function
	for _, k := range []string{"client.(*Tx).Deserialize", "client.(Tx).Deserialize"} {
		if f := c.P.Fn(k); f != nil {
			fn = f
		}
	}
	if fn == nil || fOut == nil {
		c.Undecided(rule, "anchor:client.Tx.Deserialize / Outputs", token.NoPos, "not found")
		return
	}
	c.Touch(fn)
	n := 0
	for _, st := range storesToField(fn, fOut) {
		ms, ok := stripConv(st.Val).(*ssa.MakeSlice)
		if !ok {
			continue
		}
		n++
		l := lenOf(stripConv(ms.Len))
		okv := l != nil && mentionsFieldNamed(l, "TxIn")
		c.Decide(okv, rule, fmt.Sprintf("client.(*Tx).Deserialize#one-spent-output-per-input@%d", n), st.Pos(), "value shape", nil,
			"the spent-output list is made with the length of the input list",
			"the number of spent outputs read is not the number of inputs (a special case decided from the tx contents) while the writer writes one per input: the remaining bytes are read as the tx state, state and proof are lost and the stream loses its framing")
	}
	c.Min(rule, "makes of Tx.Outputs in Tx.Deserialize", n, 1)
}

// ---------------------------------------------------------------------------------------------
// C16.R16: the pending list shrinks only by the removal of an identified request

func (c *Check) rulePendingListShrinksOnlyByRemoval(rule string) {
	f := c.P.Field("client", "RemoteClient", "requests")
	if f == nil {
		c.Undecided(rule, "anchor:client.RemoteClient.requests", token.NoPos, "field not found")
		return
	}
	n := 0
	for _, fn := range c.P.FuncsIn("client") {
		for _, st := range storesToField(fn, f) {
			if fa, ok := st.Addr.(*ssa.FieldAddr); ok && isFreshObject(fa) {
				continue
			}
			n++
			okv := builtinCall(st.Val, "append") != nil
			if k, isC := st.Val.(*ssa.Const); isC && k.IsNil() {
				okv = true
			}
			// the splice written as `copy(l[i:], l[i+1:]); l = l[:len(l)-1]`
			if sl, isSl := st.Val.(*ssa.Slice); isSl && sl.Low == nil && sl.High != nil && loadOfField(sl.X, f) != nil {
				if bin, isB := stripConv(sl.High).(*ssa.BinOp); isB && bin.Op == token.SUB && lenOfField(bin.X, f) {
					if k, isK := constInt(stripConv(bin.Y)); isK && k == 1 {
						for _, cs := range sitesIn(fn) {
							if bi, isBi := cs.CC.Value.(*ssa.Builtin); isBi && bi.Name() == "copy" && len(cs.CC.Args) == 2 &&
								mentionsField(cs.CC.Args[0], f) && mentionsField(cs.CC.Args[1], f) && cs.Instr.Block().Dominates(st.Block()) {
								okv = true
							}
						}
					}
				}
			}
			// the splice through a helper / a local: some append builds the value
			for _, r := range rootsAll(st.Val) {
				if call, ok := r.(*ssa.Call); ok && builtinCall(call, "append") != nil {
					okv = true
				}
			}
			c.Decide(okv, rule, fmt.Sprintf("%s#pending-list-store@%d", c.P.Key(fn), n), st.Pos(), "value shape", nil,
				"the pending-request list is extended, or spliced around one identified request",
				"the pending-request list is cut (a slice of itself is stored) outside the splice that removes one identified request: a caller that is still waiting is deregistered (e.g. the oldest one when a limit is reached), its response is discarded and it runs into its time-out")
			c.Touch(fn)
		}
	}
	c.Min(rule, "stores of RemoteClient.requests", n, 10)
}

// ---------------------------------------------------------------------------------------------
// C17.R9: every queued notification is handed to the handlers

func (c *Check) ruleEveryQueuedMessageProcessed(rule string) {
	fn := c.Fn(rule, "client.(*RemoteClient).runHandler")
	if fn == nil {
		return
	}
	calls := callsTo(fn, "(*client.RemoteClient).processHandler")
	cut := map[*ssa.BasicBlock]bool{}
	for _, s := range calls {
		cut[s.Instr.Block()] = true
	}
	n := 0
	for _, b := range fn.Blocks {
		for _, in := range b.Instrs {
			sel, ok := in.(*ssa.Select)
			if !ok {
				continue
			}
			msgArm := -1
			for i, st := range sel.States {
				if st.Dir == types.RecvOnly && strings.HasSuffix(st.Chan.Type().String(), "client.Message") {
					msgArm = i
				}
			}
			h := loopHeaderOf(b)
			if msgArm < 0 || h == nil {
				continue
			}
			n++
			// the other arms (interrupt) may leave or go round without a message
			other := func(iff *ssa.If, br int) bool {
				r, ok := edgeRel(iff, br)
				if !ok || r.Op != token.EQL {
					return false
				}
				ex, isEx := stripConv(r.X).(*ssa.Extract)
				k, isK := constInt(stripConv(r.Y))
				return isEx && ex.Tuple == ssa.Value(sel) && ex.Index == 0 && isK && int(k) != msgArm
			}
			bad := false
			var w []string
			for _, s := range b.Succs {
				if cut[s] {
					continue
				}
				if reach, path := reachAvoid2(s, h, other, cut); reach && s != h {
					bad, w = true, pathWitness(fn, path)
				}
			}
			// the branch out of the select block itself
			if iff, ok := lastIf(b); ok {
				for br, s := range b.Succs {
					if other(iff, br) || cut[s] {
						continue
					}
					if reach, path := reachAvoid2(s, h, other, cut); reach || s == h {
						bad, w = true, pathWitness(fn, path)
					} else if !bad {
						bad = false
					}
				}
			}
			c.Decide(!bad, rule, "client.(*RemoteClient).runHandler#every-message-processed", sel.Pos(), "must-pass-through", w,
				"every message taken off the queue is handed to processHandler before the loop goes on",
				"the handler loop can take a message off the queue and go on without handing it to the handlers (a 'repeated update' filter): the message id was already counted, so the notification is lost for good")
		}
	}
	c.Min(rule, "selects of runHandler that take a queued message", n, 1)
}

// ---------------------------------------------------------------------------------------------
// C18.R12–R14

// ruleResponseChannelFresh: the channel a send request answers on is made for this request.
func (c *Check) ruleResponseChannelFresh(rule string) {
	f := c.P.Field("client", "sendMessageRequest", "response")
	fn := c.Fn(rule, "client.(*RemoteClient).sendMessage")
	if fn == nil {
		return
	}
	if f == nil {
		c.Undecided(rule, "anchor:client.sendMessageRequest.response", fn.Pos(), "field not found")
		return
	}
	n := 0
	for _, st := range storesToField(fn, f) {
		n++
		_, fresh := stripConv(st.Val).(*ssa.MakeChan)
		c.Decide(fresh, rule, fmt.Sprintf("client.(*RemoteClient).sendMessage#response-channel-fresh@%d", n), st.Pos(), "provenance", nil,
			"the response channel is made for this request",
			"the response channel of a send request is not made for it (recycled from a pool / shared): a request that timed out is answered later into a channel another request owns by then, which is reported as sent without having been written")
	}
	c.Min(rule, "response channels in sendMessage", n, 1)
}

// ruleReconnectFlagClearedOnExit: every return of maintainConnection has cleared isReconnecting.
func (c *Check) ruleReconnectFlagClearedOnExit(rule string) {
	fn := c.Fn(rule, "client.(*RemoteClient).maintainConnection")
	f := c.P.Field("client", "RemoteClient", "isReconnecting")
	if fn == nil {
		return
	}
	if f == nil {
		c.Undecided(rule, "anchor:client.RemoteClient.isReconnecting", fn.Pos(), "field not found")
		return
	}
	var clears []ssa.Instruction
	for _, s := range sitesIn(fn) {
		if !strings.HasSuffix(calleeName(s.CC), "atomic.Value).Store") || len(s.CC.Args) < 2 {
			continue
		}
		if fa, ok := s.CC.Args[0].(*ssa.FieldAddr); !ok || fieldOfAddr(fa) != f {
			continue
		}
		if mi, ok := s.CC.Args[1].(*ssa.MakeInterface); ok {
			if bv, isB := isConstBool(mi.X); isB && !bv {
				clears = append(clears, s.Instr)
			}
		}
	}
	n := 0
	for _, b := range fn.Blocks {
		ret, ok := b.Instrs[len(b.Instrs)-1].(*ssa.Return)
		if !ok {
			continue
		}
		// (a return that hands on the error of a connection that ran is runConnection's business)
		ran := false
		for _, rc := range callsTo(fn, "(*client.RemoteClient).runConnection") {
			if rc.Instr.Block().Dominates(b) {
				ran = true
			}
		}
		if ran {
			continue
		}
		n++
		okv, w := len(clears) > 0, []string(nil)
		if okv {
			okv, w = alwaysPrecededBy(ret, clears)
		}
		c.Decide(okv, rule, fmt.Sprintf("client.(*RemoteClient).maintainConnection#reconnect-flag-cleared@%d", n), ret.Pos(), "must-pass-through", w,
			"every exit of maintainConnection has stored isReconnecting=false",
			"maintainConnection can return with isReconnecting still true: sendMessage keeps waiting 'for the reconnect' instead of timing out, so a request issued during the disconnect neither is transmitted nor fails - its caller hangs for good")
	}
	c.Min(rule, "returns of maintainConnection before a connection ran", n, 1)
}

// ruleRegisterSignedLast: no field of the register message is written after its signature hash was taken.
func (c *Check) ruleRegisterSignedLast(rule string) {
	fn := c.Fn(rule, "client.(*RemoteClient).connect")
	fSig := c.P.Field("client", "Register", "Signature")
	if fn == nil {
		return
	}
	n := 0
	for _, s := range sitesIn(fn) {
		if !strings.HasSuffix(calleeName(s.CC), "client.Register).SigHash") || len(s.CC.Args) == 0 {
			continue
		}
		n++
		var objs []*ssa.Alloc
		for _, r := range rootsAll(s.CC.Args[0]) {
			if a, ok := r.(*ssa.Alloc); ok && strings.HasSuffix(a.Type().String(), "client.Register") {
				objs = append(objs, a)
			}
		}
		var obj *ssa.Alloc
		if len(objs) > 0 {
			obj = objs[0]
		}
		bad := ""
		for _, obj := range objs {
			for _, ref := range *obj.Referrers() {
				fa, ok := ref.(*ssa.FieldAddr)
				if !ok || fieldOfAddr(fa) == fSig {
					continue
				}
				for _, r2 := range *fa.Referrers() {
					if st, ok := r2.(*ssa.Store); ok && st.Addr == ssa.Value(fa) && reachNoRevisit(s.Instr, st, nil) {
						bad = fieldOfAddr(fa).Name()
					}
				}
			}
		}
		c.Decide(obj != nil && bad == "", rule, fmt.Sprintf("client.(*RemoteClient).connect#register-signed-last@%d", n), s.Pos(), "event order", nil,
			"no signed field of the register message is written after its signature hash was taken",
			"the field "+bad+" of the register message is written after SigHash(): the signature no longer covers what is sent, and the service refuses the connection (from the first reconnect on, when the field has a value)")
	}
	c.Min(rule, "SigHash calls in connect", n, 1)
}

// ---------------------------------------------------------------------------------------------
// C01.R22 / C10.R14: a header that forks off a stored block is followed

func (c *Check) ruleForkAlwaysFollowed(rule string) {
	fn := c.Fn(rule, "handlers.(*HeadersHandler).Handle")
	if fn == nil {
		return
	}
	sets := callsTo(fn, "(*state.State).SetLastHash")
	cut := map[*ssa.BasicBlock]bool{}
	for _, s := range sets {
		cut[s.Instr.Block()] = true
	}
	n := 0
	for _, s := range callsTo(fn, "(*storage.BlockRepository).Height") {
		call := s.Value()
		if call == nil {
			continue
		}
		// the edge on which the parent was found
		for _, b := range fn.Blocks {
			iff, ok := lastIf(b)
			if !ok {
				continue
			}
			cd := normCond(iff.Cond)
			ex, isEx := cd.V.(*ssa.Extract)
			if !isEx || ex.Tuple != ssa.Value(call) || ex.Index != 1 {
				continue
			}
			found := b.Succs[0]
			if cd.Neg {
				found = b.Succs[1]
			}
			n++
			h := loopHeaderOf(b)
			cc := map[*ssa.BasicBlock]bool{}
			for k := range cut {
				cc[k] = true
			}
			if h != nil {
				cc[h] = true
			}
			bad := false
			var w []string
			for _, rb := range fn.Blocks {
				ret, ok := rb.Instrs[len(rb.Instrs)-1].(*ssa.Return)
				if !ok {
					continue
				}
				if isNil, known := errIsNilReturn(ret); !known || !isNil {
					continue
				}
				if reach, path := reachAvoid2(found, rb, nil, cc); reach {
					bad = true
					w = pathWitness(fn, path)
				}
			}
			c.Decide(!bad, rule, fmt.Sprintf("handlers.(*HeadersHandler).Handle#fork-off-stored-block-followed@%d", n), iff.Pos(), "must-pass-through", w,
				"once a header's parent was found in the repository, the only exits before the last hash is moved are errors",
				"a header that forks off a stored block can be dropped with a successful return (a depth limit, a shortcut) before the chain was reverted: the node, and every node restarted on its storage, ignores the peer's best chain for good")
		}
	}
	c.Min(rule, "parent look-ups of the reorg branch in Handle", n, 1)
}
