package main

import "fmt"

// sweepConfigs re-runs the property's rules under other build configurations so that files behind
// build constraints are covered ("cover what the build covers").
func sweepConfigs(def *PropDef, c *Check, repo string, extra map[string]interface{}) {
	type cfg struct {
		name string
		tags string
		env  []string
	}
	cfgs := []cfg{
		{"notags", "", nil},
		{"GOARCH=arm64", "verif", []string{"GOARCH=arm64", "CGO_ENABLED=0"}},
		{"GOOS=windows", "verif", []string{"GOOS=windows", "CGO_ENABLED=0"}},
		{"GOOS=darwin", "verif", []string{"GOOS=darwin", "CGO_ENABLED=0"}},
	}
	var res []string
	for _, k := range cfgs {
		P2, err := Load(repo, k.tags, false, k.env)
		if err != nil {
			// a configuration the module (or one of its dependencies) does not build under is not part
			// of "what the build covers"; it is reported, it is no verdict about the property
			// (GOARCH=386 is such a configuration: the wire dependency overflows int there)
			msg := err.Error()
			if len(msg) > 200 {
				msg = msg[:200] + "…"
			}
			res = append(res, fmt.Sprintf("%s: not loadable, not covered (%s)", k.name, msg))
			continue
		}
		c2 := newCheck(P2, def.ID, c.Tier)
		runProperty(def, c2)
		v, u := 0, 0
		for _, o := range c2.Obs {
			switch o.Status {
			case stViolated:
				v++
			case stUndecided:
				u++
			}
		}
		res = append(res, fmt.Sprintf("%s: %d obligations, %d violated, %d undecided, %d functions", k.name, len(c2.Obs), v, u, len(P2.AllSrc)))
		// merge obligations that differ from the default configuration
		base := map[string]string{}
		for _, o := range c.Obs {
			base[o.Rule+" "+o.Key] = o.Status
		}
		for _, o := range c2.Obs {
			if st, ok := base[o.Rule+" "+o.Key]; !ok || st != o.Status {
				o.Key = o.Key + "@" + k.name
				c.Obs = append(c.Obs, o)
			}
		}
		delete(sharedOf, P2)
	}
	extra["config_sweep"] = res
}
