package main

// Helper normalisation ("new-helper inlining").
//
// The rules are anchored in the functions of the tree they were written against. The most common
// behaviour-preserving edit – extracting part of such a function into a new helper – moves guards
// and effects out of the anchored function and would make intra-procedural path rules report
// violations although nothing changed. Before the program is type-checked for analysis, calls to
// functions that are NOT in the recorded baseline (baseline_funcs.txt, the functions of the tree the
// rules were confirmed on) are therefore expanded in place at source level, through go/packages'
// overlay; /repo itself is never written. On a tree without new functions this pass does nothing.
//
// The expansion is analysis-oriented, not pretty:
//
//	x, err := h(a, b)      =>   var __r0_7 T; var __r1_7 error
//	                            {
//	                                var __a0_7 A = a; var __a1_7 B = b
//	                                {
//	                                    var p A = __a0_7; _ = p; var q B = __a1_7; _ = q
//	                                __inl7: switch { default:
//	                                    <body of h; `return e0, e1` => { __r0_7, __r1_7 = e0, e1; break __inl7 }>
//	                                    break __inl7 }
//	                                }
//	                            }
//	                            x, err := __r0_7, __r1_7
//
// A call is expanded only where hoisting it in front of its statement keeps the order of
// evaluation (it is the first call the statement evaluates, unconditionally); defers of the helper
// (top level, argument-free) run before each rewritten return. Anything else is left as a call.

import (
	"regexp"
	"bufio"
	"bytes"
	"fmt"
	"go/ast"
	"go/token"
	"go/types"
	"os"
	"path/filepath"
	"sort"
	"strings"

	"golang.org/x/tools/go/packages"
)

// funcIdent is the baseline identity of a declared function: "pkgpath recv name".
func funcIdent(pkgPath string, fd *ast.FuncDecl) string {
	recv := ""
	if fd.Recv != nil && len(fd.Recv.List) > 0 {
		t := fd.Recv.List[0].Type
		if s, ok := t.(*ast.StarExpr); ok {
			t = s.X
		}
		if ix, ok := t.(*ast.IndexExpr); ok {
			t = ix.X
		}
		if id, ok := t.(*ast.Ident); ok {
			recv = id.Name
		}
	}
	return pkgPath + " " + recv + " " + fd.Name.Name
}

// funcSig renders the parameter and result types of a declaration (names dropped).
func funcSig(fd *ast.FuncDecl) string {
	list := func(fl *ast.FieldList) string {
		if fl == nil {
			return ""
		}
		var ts []string
		for _, f := range fl.List {
			t := types.ExprString(f.Type)
			n := len(f.Names)
			if n == 0 {
				n = 1
			}
			for i := 0; i < n; i++ {
				ts = append(ts, t)
			}
		}
		return strings.Join(ts, ",")
	}
	ptr := ""
	if fd.Recv != nil && len(fd.Recv.List) > 0 {
		if _, ok := fd.Recv.List[0].Type.(*ast.StarExpr); ok {
			ptr = "*"
		}
	}
	return strings.ReplaceAll(ptr+"("+list(fd.Type.Params)+")->("+list(fd.Type.Results)+")", " ", "")
}

// funcPrint is a body fingerprint that survives renames of the function itself, of its locals and
// parameters: the sorted multiset of selector names, called identifiers and basic literal kinds.
func funcPrint(fd *ast.FuncDecl) string {
	if fd.Body == nil {
		return "-"
	}
	counts := map[string]int{}
	ast.Inspect(fd.Body, func(n ast.Node) bool {
		switch x := n.(type) {
		case *ast.SelectorExpr:
			counts["."+x.Sel.Name]++
		case *ast.CallExpr:
			if id, ok := x.Fun.(*ast.Ident); ok {
				counts["("+id.Name]++
			}
		case *ast.ReturnStmt:
			counts["return"]++
		case *ast.ForStmt, *ast.RangeStmt:
			counts["loop"]++
		case *ast.IfStmt:
			counts["if"]++
		}
		return true
	})
	var ks []string
	for k, v := range counts {
		ks = append(ks, fmt.Sprintf("%s%d", k, v))
	}
	sort.Strings(ks)
	h := uint32(2166136261)
	for _, k := range ks {
		for i := 0; i < len(k); i++ {
			h ^= uint32(k[i])
			h *= 16777619
		}
	}
	return fmt.Sprintf("%08x", h)
}

// baselinePrints: ident -> body fingerprint of the recorded functions.
var baselinePrints = map[string]string{}

// baselineSigs: ident -> signature of the recorded functions (filled by loadBaseline).
var baselineSigs = map[string]string{}

// renamedFuncs: "pkgpath recv newname" -> old name, for functions of the current tree that are a
// recorded function under a new name (same package, receiver and signature; one-to-one).
var renamedFuncs = map[string]string{}

func loadBaseline(verif string) (map[string]bool, error) {
	f, err := os.Open(filepath.Join(verif, "checker", "baseline_funcs.txt"))
	if err != nil {
		return nil, err
	}
	defer f.Close()
	out := map[string]bool{}
	sc := bufio.NewScanner(f)
	for sc.Scan() {
		ln := strings.TrimSpace(sc.Text())
		if ln != "" && !strings.HasPrefix(ln, "#") {
			// "pkgpath recv name\tsignature"
			id, sig, fp := ln, "", ""
			if i := strings.Index(ln, "\t"); i >= 0 {
				id, sig = ln[:i], ln[i+1:]
				if j := strings.Index(sig, "\t"); j >= 0 {
					sig, fp = sig[:j], sig[j+1:]
				}
			}
			out[id] = true
			baselineSigs[id] = sig
			baselinePrints[id] = fp
		}
	}
	return out, sc.Err()
}

// writeBaseline records the declared functions of the module at dir.
func writeBaseline(dir, tags, out string) error {
	cfg := &packages.Config{Mode: packages.NeedName | packages.NeedFiles | packages.NeedSyntax, Dir: dir,
		Env: append(os.Environ(), "GOFLAGS=-mod=mod", "GOPROXY=off", "GOSUMDB=off", "GOTOOLCHAIN=local", "GOWORK=off")}
	if tags != "" {
		cfg.BuildFlags = []string{"-tags=" + tags}
	}
	pkgs, err := packages.Load(cfg, "./...")
	if err != nil {
		return err
	}
	var lines []string
	for _, p := range pkgs {
		for _, f := range p.Syntax {
			for _, d := range f.Decls {
				if fd, ok := d.(*ast.FuncDecl); ok {
					lines = append(lines, funcIdent(p.PkgPath, fd)+"\t"+funcSig(fd)+"\t"+funcPrint(fd))
				}
			}
		}
	}
	sort.Strings(lines)
	if err := writeFieldBaseline(dir, tags, filepath.Join(filepath.Dir(out), "baseline_fields.txt")); err != nil {
		return err
	}
	hdr := "# functions declared in the tree the rules were confirmed on (pkgpath recv name <tab> signature <tab> body fingerprint); calls to\n# module functions NOT listed here are expanded in place before analysis, a recorded function that only\n# changed its name is recognised by package+receiver+signature (see inline.go)\n"
	return os.WriteFile(out, []byte(hdr+strings.Join(lines, "\n")+"\n"), 0o644)
}

// normaliseHelpers returns an overlay (file -> content) in which calls to non-baseline module
// functions are expanded, plus a description of what was done. nil overlay = nothing to do.
func normaliseHelpers(dir, tags string, env []string, baseline map[string]bool) (map[string][]byte, []string, error) {
	overlay := map[string][]byte{}
	var notes []string
	// cheap pre-check: is there any new function at all?
	pre := &packages.Config{Mode: packages.NeedName | packages.NeedFiles | packages.NeedSyntax, Dir: dir, Env: append(os.Environ(), env...)}
	pre.Env = append(pre.Env, "GOFLAGS=-mod=mod", "GOPROXY=off", "GOSUMDB=off", "GOTOOLCHAIN=local", "GOWORK=off")
	if tags != "" {
		pre.BuildFlags = []string{"-tags=" + tags}
	}
	pp, err := packages.Load(pre, "./...")
	if err != nil {
		return nil, nil, err
	}
	// named results are spelled out first (`func f() (v T, err error)` becomes `func f() (T, error)` with
	// locals v, err and `return v, err` for every bare return): with a deferred unlock go/ssa keeps named
	// results in memory slots, which hides per-path values from every rule that looks at what a return
	// yields; as locals they are ordinary SSA values
	for _, p := range pp {
		if !strings.HasPrefix(p.PkgPath, modulePath) {
			continue
		}
		for _, f := range p.Syntax {
			name := p.Fset.PositionFor(f.Pos(), false).Filename
			if name == "" || strings.HasSuffix(name, "_test.go") {
				continue
			}
			src, rerr := os.ReadFile(name)
			if rerr != nil {
				continue
			}
			pkgPath := p.PkgPath
			isNewFunc := func(fd *ast.FuncDecl) bool { return !baseline[funcIdent(pkgPath, fd)] }
			if out, n := unnameResults(p.Fset, f, src, isNewFunc); n > 0 {
				overlay[name] = out
				notes = append(notes, fmt.Sprintf("%s: named results of %d function(s) spelled out as locals", strings.TrimPrefix(name, dir+"/"), n))
			}
		}
	}
	anyNew := false
	present := map[string]bool{}
	type cand struct{ id, name, print string }
	fresh := map[string][]cand{} // "pkgpath recv sig" -> new functions
	for _, p := range pp {
		if !strings.HasPrefix(p.PkgPath, modulePath) {
			continue
		}
		for _, f := range p.Syntax {
			for _, d := range f.Decls {
				if fd, ok := d.(*ast.FuncDecl); ok {
					id := funcIdent(p.PkgPath, fd)
					present[id] = true
					if fd.Body != nil && !baseline[id] {
						cls := id[:strings.LastIndex(id, " ")] + " " + funcSig(fd)
						fresh[cls] = append(fresh[cls], cand{id, fd.Name.Name, funcPrint(fd)})
					}
				}
			}
		}
	}
	// recorded functions that disappeared, by class
	gone := map[string][]string{}
	for id := range baseline {
		if !present[id] && strings.HasPrefix(id, modulePath) {
			cls := id[:strings.LastIndex(id, " ")] + " " + baselineSigs[id]
			gone[cls] = append(gone[cls], id)
		}
	}
	for k := range renamedFuncs {
		delete(renamedFuncs, k)
	}
	for cls, fs := range fresh {
		gs := gone[cls]
		matched := map[string]bool{}
		pair := func(f cand, g string) {
			old := g[strings.LastIndex(g, " ")+1:]
			renamedFuncs[f.id] = old
			notes = append(notes, fmt.Sprintf("%s is the recorded function %s under a new name", f.id, old))
			baseline[f.id] = true // not a new helper: it is not expanded
			matched[f.id] = true
		}
		if len(fs) == 1 && len(gs) == 1 {
			pair(fs[0], gs[0])
		} else if len(gs) > 0 {
			// several candidates of the same shape: pair those whose bodies have the same fingerprint
			used := map[string]bool{}
			for _, f := range fs {
				var hit []string
				for _, g := range gs {
					if !used[g] && baselinePrints[g] != "" && baselinePrints[g] == f.print {
						hit = append(hit, g)
					}
				}
				if len(hit) == 1 {
					used[hit[0]] = true
					pair(f, hit[0])
				}
			}
		}
		for _, f := range fs {
			if !matched[f.id] {
				anyNew = true
			}
		}
	}
	if !anyNew {
		if len(overlay) > 0 {
			return overlay, notes, nil
		}
		return nil, notes, nil
	}
	for round := 1; round <= 6; round++ {
		cfg := &packages.Config{Mode: packages.LoadAllSyntax, Dir: dir, Env: append(os.Environ(), env...), Overlay: overlay}
		cfg.Env = append(cfg.Env, "GOFLAGS=-mod=mod", "GOPROXY=off", "GOSUMDB=off", "GOTOOLCHAIN=local", "GOWORK=off")
		if tags != "" {
			cfg.BuildFlags = []string{"-tags=" + tags}
		}
		pkgs, err := packages.Load(cfg, "./...")
		if err != nil {
			return nil, nil, err
		}
		if d := os.Getenv("VERIF_DUMP_OVERLAY"); d != "" {
			os.MkdirAll(d, 0o755)
			for name, b := range overlay {
				os.WriteFile(filepath.Join(d, fmt.Sprintf("r%d_", round)+strings.ReplaceAll(strings.TrimPrefix(name, dir+"/"), "/", "__")), b, 0o644)
			}
		}
		changed := 0
		for _, p := range pkgs {
			if p.Types == nil || !inModule(p.Types) || len(p.Errors) > 0 {
				if len(p.Errors) > 0 && p.Types != nil && inModule(p.Types) {
					if round > 1 {
						// our own expansion broke the package: give up on normalisation, analyse the tree as it is
						return nil, append(notes, fmt.Sprintf("helper normalisation abandoned: expanded %s no longer type-checks (%v)", p.PkgPath, p.Errors[0])), nil
					}
				}
				continue
			}
			in := &inliner{pkg: p, fset: p.Fset, info: p.TypesInfo, baseline: baseline, overlay: overlay, round: round}
			n, ns := in.run()
			changed += n
			notes = append(notes, ns...)
		}
		if changed == 0 {
			break
		}
	}
	if len(overlay) == 0 {
		return nil, notes, nil
	}
	return overlay, notes, nil
}

type edit struct {
	pos, end int
	text     string
	seq      int
}

type inliner struct {
	pkg      *packages.Package
	fset     *token.FileSet
	info     *types.Info
	baseline map[string]bool
	overlay  map[string][]byte
	round    int
	counter  int
	newDecl  map[*types.Func]*ast.FuncDecl
	declFile map[*ast.FuncDecl]*ast.File
	src      map[*ast.File][]byte
	edits    map[*ast.File][]edit
	seq      int
	addImp   map[*ast.File]map[string]string // path -> alias to add
	addNamedImp map[*ast.File]map[string]string // file -> import name -> path (imports a moved helper's body needs)
	addAlias map[string]*ast.File             // shadowed type name of this package -> file that gets `type __shN_name = name`
}

func (in *inliner) content(f *ast.File) []byte {
	if b, ok := in.src[f]; ok {
		return b
	}
	name := in.fset.File(f.Pos()).Name()
	b, ok := in.overlay[name]
	if !ok {
		b, _ = os.ReadFile(name)
	}
	in.src[f] = b
	return b
}

func (in *inliner) off(p token.Pos) int { return in.fset.File(p).Offset(p) }

func (in *inliner) text(f *ast.File, from, to token.Pos) string {
	return string(in.content(f)[in.off(from):in.off(to)])
}

func (in *inliner) run() (int, []string) {
	in.newDecl = map[*types.Func]*ast.FuncDecl{}
	in.declFile = map[*ast.FuncDecl]*ast.File{}
	in.src = map[*ast.File][]byte{}
	in.edits = map[*ast.File][]edit{}
	in.addImp = map[*ast.File]map[string]string{}
	var notes []string
	// methods that may be what makes a type implement an interface of this package are left alone
	// (expanding them at their static call sites and dropping the declaration would break the
	// implementation relation)
	ifaceMethods := map[string]bool{}
	for _, f := range in.pkg.Syntax {
		ast.Inspect(f, func(n ast.Node) bool {
			if it, ok := n.(*ast.InterfaceType); ok && it.Methods != nil {
				for _, m := range it.Methods.List {
					for _, nm := range m.Names {
						ifaceMethods[nm.Name] = true
					}
				}
			}
			return true
		})
	}
	for _, f := range in.pkg.Syntax {
		for _, d := range f.Decls {
			fd, ok := d.(*ast.FuncDecl)
			if !ok || fd.Body == nil {
				continue
			}
			in.declFile[fd] = f
			if in.baseline[funcIdent(in.pkg.PkgPath, fd)] {
				continue
			}
			if fd.Recv != nil && ifaceMethods[fd.Name.Name] {
				continue
			}
			if obj, ok := in.info.Defs[fd.Name].(*types.Func); ok && in.inlinable(fd, obj) {
				in.newDecl[obj] = fd
			}
		}
	}
	if len(in.newDecl) == 0 {
		return 0, nil
	}
	n := 0
	for _, f := range in.pkg.Syntax {
		for _, d := range f.Decls {
			fd, ok := d.(*ast.FuncDecl)
			if !ok || fd.Body == nil {
				continue
			}
			n += in.stmts(f, fd, fd.Body.List, false)
		}
	}
	if n == 0 && os.Getenv("VERIF_DEBUG_INLINE") != "" {
		for _, f := range in.pkg.Syntax {
			ast.Inspect(f, func(nd ast.Node) bool {
				if ce, ok := nd.(*ast.CallExpr); ok && in.isNew(ce) {
					fmt.Fprintf(os.Stderr, "inline: call of new helper %s left at %s\n", in.calleeOf(ce).Name(), in.fset.Position(ce.Pos()))
				}
				return true
			})
		}
	}
	// helpers that are no longer referenced anywhere are dropped (they have no caller context left)
	if n == 0 {
		refs := map[*types.Func]int{}
		for _, o := range in.info.Uses {
			if fn, ok := o.(*types.Func); ok {
				refs[fn]++
			}
		}
		for obj, fd := range in.newDecl {
			if refs[obj] == 0 && !ast.IsExported(fd.Name.Name) {
				f := in.declFile[fd]
				start := fd.Pos()
				if fd.Doc != nil {
					start = fd.Doc.Pos()
				}
				in.add(f, in.off(start), in.off(fd.End()), "")
				n++
				notes = append(notes, fmt.Sprintf("expanded new helper %s at all of its call sites and dropped its declaration", funcIdent(in.pkg.PkgPath, fd)))
			}
		}
	}
	// apply
	for f, es := range in.edits {
		b := in.content(f)
		sort.SliceStable(es, func(i, j int) bool {
			if es[i].pos != es[j].pos {
				return es[i].pos < es[j].pos
			}
			return es[i].seq < es[j].seq
		})
		var out bytes.Buffer
		cur := 0
		for _, e := range es {
			if e.pos < cur {
				continue // overlapping edit: left for the next round
			}
			out.Write(b[cur:e.pos])
			out.WriteString(e.text)
			cur = e.end
		}
		out.Write(b[cur:])
		res := out.Bytes()
		if imps := in.addImp[f]; len(imps) > 0 {
			res = addImports(res, imps)
		}
		if named := in.addNamedImp[f]; len(named) > 0 {
			res = addNamedImports(res, named)
		}
		// an import that only a dropped / moved-out helper used would now be "imported and not used":
		// it is kept as a blank import
		for _, is := range f.Imports {
			var pn *types.PkgName
			if is.Name != nil {
				if is.Name.Name == "_" || is.Name.Name == "." {
					continue
				}
				pn, _ = in.info.Defs[is.Name].(*types.PkgName)
			} else {
				pn, _ = in.info.Implicits[is].(*types.PkgName)
			}
			if pn == nil {
				continue
			}
			re := regexp.MustCompile(`(^|[^A-Za-z0-9_."/])` + regexp.QuoteMeta(pn.Name()) + `\.`)
			if re.Match(res) {
				continue
			}
			orig := in.text(f, is.Pos(), is.End())
			res = bytes.Replace(res, []byte(orig), []byte("_ "+is.Path.Value), 1)
		}
		var aliasNames []string
		for nm, af := range in.addAlias {
			if af == f {
				aliasNames = append(aliasNames, nm)
			}
		}
		sort.Strings(aliasNames)
		for _, nm := range aliasNames {
			res = append(res, []byte(fmt.Sprintf("\ntype __sh%d_%s = %s\n", in.round, nm, nm))...)
		}
		in.overlay[in.fset.File(f.Pos()).Name()] = res
	}
	return n, notes
}

func addImports(src []byte, imps map[string]string) []byte {
	// after the package clause line
	idx := bytes.Index(src, []byte("\npackage "))
	if bytes.HasPrefix(src, []byte("package ")) {
		idx = -1
	}
	nl := bytes.IndexByte(src[idx+1:], '\n')
	if nl < 0 {
		return src
	}
	at := idx + 1 + nl + 1
	var sb strings.Builder
	var paths []string
	for p := range imps {
		paths = append(paths, p)
	}
	sort.Strings(paths)
	for _, p := range paths {
		fmt.Fprintf(&sb, "import %s %q\n", imps[p], p)
	}
	return append(append(append([]byte{}, src[:at]...), []byte(sb.String())...), src[at:]...)
}

// addNamedImports adds `import name "path"` lines (name -> path) after the package clause.
func addNamedImports(src []byte, named map[string]string) []byte {
	idx := bytes.Index(src, []byte("\npackage "))
	if bytes.HasPrefix(src, []byte("package ")) {
		idx = -1
	}
	nl := bytes.IndexByte(src[idx+1:], '\n')
	if nl < 0 {
		return src
	}
	at := idx + 1 + nl + 1
	var names []string
	for n := range named {
		names = append(names, n)
	}
	sort.Strings(names)
	var sb strings.Builder
	for _, n := range names {
		fmt.Fprintf(&sb, "import %s %q\n", n, named[n])
	}
	return append(append(append([]byte{}, src[:at]...), []byte(sb.String())...), src[at:]...)
}

func (in *inliner) add(f *ast.File, pos, end int, text string) {
	in.seq++
	in.edits[f] = append(in.edits[f], edit{pos, end, text, in.seq})
}

// inlinable: a helper whose body can be expanded.
func (in *inliner) inlinable(fd *ast.FuncDecl, obj *types.Func) bool {
	sig := obj.Type().(*types.Signature)
	if sig.TypeParams() != nil || sig.RecvTypeParams() != nil {
		return false
	}
	ok := true
	depth := 0
	ast.Inspect(fd.Body, func(n ast.Node) bool {
		switch x := n.(type) {
		case *ast.FuncLit:
			return false
		case *ast.CallExpr:
			if id, isId := x.Fun.(*ast.Ident); isId && id.Name == "recover" {
				ok = false
			}
			// direct recursion
			if callee := in.calleeOf(x); callee == obj {
				ok = false
			}
		case *ast.DeferStmt:
			// only top-level, argument-free (or identifier-only) defers
			top := false
			for _, s := range fd.Body.List {
				if s == ast.Stmt(x) {
					top = true
				}
			}
			if !top {
				ok = false
			}
			// arguments that are not plain operands are evaluated into temporaries where the defer
			// statement stands (that is when Go evaluates them) and the replayed call uses those
			if x.Call.Ellipsis.IsValid() {
				ok = false
			}
			if _, isLit := x.Call.Fun.(*ast.FuncLit); isLit {
				ok = false
			}
		case *ast.BranchStmt:
			if x.Tok == token.GOTO {
				ok = false
			}
		}
		_ = depth
		return true
	})
	// named results together with defers: the deferred call may read them after the return
	hasDefer := false
	for _, s := range fd.Body.List {
		if _, isD := s.(*ast.DeferStmt); isD {
			hasDefer = true
		}
	}
	if hasDefer && fd.Type.Results != nil {
		for _, r := range fd.Type.Results.List {
			if len(r.Names) > 0 {
				ok = false
			}
		}
	}
	return ok
}

func pureExpr(e ast.Expr) bool {
	switch x := e.(type) {
	case *ast.Ident, *ast.BasicLit:
		return true
	case *ast.SelectorExpr:
		return pureExpr(x.X)
	case *ast.ParenExpr:
		return pureExpr(x.X)
	case *ast.StarExpr:
		return pureExpr(x.X)
	case *ast.UnaryExpr:
		return x.Op != token.ARROW && pureExpr(x.X)
	}
	return false
}

func (in *inliner) calleeOf(ce *ast.CallExpr) *types.Func {
	var id *ast.Ident
	switch f := ast.Unparen(ce.Fun).(type) {
	case *ast.Ident:
		id = f
	case *ast.SelectorExpr:
		id = f.Sel
	}
	if id == nil {
		return nil
	}
	fn, _ := in.info.Uses[id].(*types.Func)
	return fn
}

// firstCall returns the call of the expression that may be hoisted in front of its statement: the
// first call to a new helper in evaluation order (outside function literals and conditionally
// evaluated operands) such that everything evaluated before it is one of its own operands. If the
// first candidate does not qualify the (non-new) first call is returned so that callers see "no".
func (in *inliner) firstCall(e ast.Node) *ast.CallExpr {
	var order []*ast.CallExpr // evaluation order (operands before the call)
	stop := false
	var walk func(n ast.Node)
	walk = func(n ast.Node) {
		if n == nil || stop {
			return
		}
		switch x := n.(type) {
		case *ast.FuncLit:
			return
		case *ast.BinaryExpr:
			walk(x.X)
			if !stop {
				if x.Op == token.LAND || x.Op == token.LOR {
					// the right operand is evaluated conditionally: a call inside it cannot be hoisted (and ends
					// the walk); without calls it is just part of the value
					hasCall := false
					ast.Inspect(x.Y, func(c ast.Node) bool {
						if ce, ok := c.(*ast.CallExpr); ok {
							if tv, ok := in.info.Types[ce.Fun]; ok && tv.IsType() {
								return true
							}
							if id, ok := ce.Fun.(*ast.Ident); ok {
								if _, isB := in.info.Uses[id].(*types.Builtin); isB {
									return true
								}
							}
							hasCall = true
						}
						if _, isLit := c.(*ast.FuncLit); isLit {
							hasCall = true
						}
						if u, ok := c.(*ast.UnaryExpr); ok && u.Op == token.ARROW {
							hasCall = true
						}
						return true
					})
					if hasCall {
						stop = true
					}
					return
				}
				walk(x.Y)
			}
			return
		case *ast.CallExpr:
			if tv, ok := in.info.Types[x.Fun]; ok && tv.IsType() {
				for _, a := range x.Args {
					walk(a)
				}
				return
			}
			if id, ok := x.Fun.(*ast.Ident); ok {
				if _, isB := in.info.Uses[id].(*types.Builtin); isB {
					for _, a := range x.Args {
						walk(a)
					}
					return
				}
			}
			if sel, ok := ast.Unparen(x.Fun).(*ast.SelectorExpr); ok {
				walk(sel.X)
			}
			for _, a := range x.Args {
				walk(a)
			}
			if !stop {
				order = append(order, x)
			}
			return
		case *ast.UnaryExpr:
			if x.Op == token.ARROW {
				stop = true
				return
			}
		}
		ast.Inspect(n, func(c ast.Node) bool {
			if c == n {
				return true
			}
			if c != nil {
				walk(c)
			}
			return false
		})
	}
	walk(e)
	for i, c := range order {
		if !in.isNew(c) {
			continue
		}
		ok := true
		for _, earlier := range order[:i] {
			if !(c.Pos() <= earlier.Pos() && earlier.End() <= c.End()) {
				ok = false
			}
		}
		if ok {
			return c
		}
		break
	}
	if len(order) > 0 {
		return order[0]
	}
	return nil
}

// stmts walks a statement list and expands at most one call per statement.
func (in *inliner) stmts(f *ast.File, encl *ast.FuncDecl, list []ast.Stmt, _ bool) int {
	n := 0
	for _, s := range list {
		n += in.stmt(f, encl, s, false)
	}
	return n
}

func (in *inliner) stmt(f *ast.File, encl *ast.FuncDecl, s ast.Stmt, elsePos bool) int {
	n := 0
	var target ast.Node // the part of the statement whose first call may be hoisted
	switch x := s.(type) {
	case *ast.ExprStmt:
		target = x.X
	case *ast.AssignStmt:
		lhsPure := true
		for _, l := range x.Lhs {
			if in.firstCall(l) != nil {
				lhsPure = false
			}
		}
		if lhsPure && len(x.Rhs) >= 1 {
			target = &ast.CompositeLit{Elts: x.Rhs} // the right-hand sides, in evaluation order
		}
	case *ast.ReturnStmt:
		if len(x.Results) >= 1 {
			target = &ast.CompositeLit{Elts: x.Results}
		}
	case *ast.DeclStmt:
		if gd, ok := x.Decl.(*ast.GenDecl); ok && gd.Tok == token.VAR && len(gd.Specs) == 1 {
			if vs, ok := gd.Specs[0].(*ast.ValueSpec); ok && len(vs.Values) >= 1 {
				target = vs.Values[0]
			}
		}
	case *ast.IfStmt:
		if x.Init != nil {
			// the init statement is evaluated first
			if c := in.hoistable(f, encl, x.Init); c != nil {
				n += in.expand(f, encl, s, c, true)
			}
		} else if c := in.firstCall(x.Cond); c != nil && in.isNew(c) && in.siteOK(encl, c) {
			n += in.expand(f, encl, s, c, true)
		} else if in.splitCond(f, encl, x) {
			// `if A || h(x)`: the helper call is evaluated conditionally. The condition is first spelled
			// out with a temporary (same evaluation order); the call is expanded in the next round.
			n++
		}
		n += in.stmts(f, encl, x.Body.List, false)
		switch e := x.Else.(type) {
		case *ast.BlockStmt:
			n += in.stmts(f, encl, e.List, false)
		case *ast.IfStmt:
			n += in.stmt(f, encl, e, true)
		}
		return n
	case *ast.BlockStmt:
		return in.stmts(f, encl, x.List, false)
	case *ast.ForStmt:
		return in.stmts(f, encl, x.Body.List, false)
	case *ast.RangeStmt:
		if c := in.firstCall(x.X); c != nil && in.isNew(c) && in.siteOK(encl, c) {
			n += in.expand(f, encl, s, c, false)
		}
		return n + in.stmts(f, encl, x.Body.List, false)
	case *ast.SwitchStmt:
		if x.Init == nil && x.Tag != nil {
			if c := in.firstCall(x.Tag); c != nil && in.isNew(c) && in.siteOK(encl, c) {
				n += in.expand(f, encl, s, c, false)
			}
		}
		for _, cc := range x.Body.List {
			n += in.stmts(f, encl, cc.(*ast.CaseClause).Body, false)
		}
		return n
	case *ast.TypeSwitchStmt:
		for _, cc := range x.Body.List {
			n += in.stmts(f, encl, cc.(*ast.CaseClause).Body, false)
		}
		return n
	case *ast.SelectStmt:
		for _, cc := range x.Body.List {
			n += in.stmts(f, encl, cc.(*ast.CommClause).Body, false)
		}
		return n
	case *ast.LabeledStmt:
		return in.stmt(f, encl, x.Stmt, false)
	}
	if target != nil {
		if c := in.firstCall(target); c != nil && in.isNew(c) && in.siteOK(encl, c) {
			n += in.expand(f, encl, s, c, false)
		}
	}
	// function literals inside the statement
	ast.Inspect(s, func(nd ast.Node) bool {
		if fl, ok := nd.(*ast.FuncLit); ok {
			n += in.stmts(f, encl, fl.Body.List, false)
			return false
		}
		return true
	})
	_ = elsePos
	return n
}

// splitCond rewrites `if A || B {…}` / `if A && B {…}` whose right operand calls a new helper into
//
//	{ c := A; if !c { c = B }; if c {…} }     (for &&: if c { c = B })
//
// which evaluates exactly what the original evaluates, in the same order.
func (in *inliner) splitCond(f *ast.File, encl *ast.FuncDecl, x *ast.IfStmt) bool {
	be, ok := ast.Unparen(x.Cond).(*ast.BinaryExpr)
	if !ok || (be.Op != token.LOR && be.Op != token.LAND) || x.Init != nil {
		return false
	}
	// some call to a new helper in the right operand (not already handled as the first call)
	found := false
	ast.Inspect(be.Y, func(n ast.Node) bool {
		if _, isLit := n.(*ast.FuncLit); isLit {
			return false
		}
		if ce, isCall := n.(*ast.CallExpr); isCall && in.isNew(ce) && in.siteOK(encl, ce) {
			found = true
		}
		return true
	})
	if !found {
		return false
	}
	in.counter++
	tmp := fmt.Sprintf("__c_%d_%d", in.round, in.counter)
	guard := "!" + tmp
	if be.Op == token.LAND {
		guard = tmp
	}
	pre := fmt.Sprintf("{ %s := %s; if %s { %s = %s }\n//line %s:%d\n", tmp, strings.ReplaceAll(in.text(f, be.X.Pos(), be.X.End()), "\n", " "), guard, tmp,
		strings.ReplaceAll(in.text(f, be.Y.Pos(), be.Y.End()), "\n", " "), in.fset.Position(x.Pos()).Filename, in.fset.Position(x.Pos()).Line)
	in.add(f, in.off(x.Pos()), in.off(x.Pos()), pre)
	in.add(f, in.off(x.Cond.Pos()), in.off(x.Cond.End()), tmp)
	in.add(f, in.off(x.End()), in.off(x.End()), " }")
	return true
}

func (in *inliner) hoistable(f *ast.File, encl *ast.FuncDecl, s ast.Stmt) *ast.CallExpr {
	var target ast.Node
	switch x := s.(type) {
	case *ast.ExprStmt:
		target = x.X
	case *ast.AssignStmt:
		for _, l := range x.Lhs {
			if in.firstCall(l) != nil {
				return nil
			}
		}
		if len(x.Rhs) >= 1 {
			target = x.Rhs[0]
		}
	}
	if target == nil {
		return nil
	}
	c := in.firstCall(target)
	if c != nil && in.isNew(c) && in.siteOK(encl, c) {
		return c
	}
	return nil
}

func (in *inliner) isNew(c *ast.CallExpr) bool {
	fn := in.calleeOf(c)
	if fn == nil {
		return false
	}
	_, ok := in.newDecl[fn]
	return ok
}

// siteOK: the callee can be expanded at this site (no self expansion, names resolve the same way).
func (in *inliner) siteOK(encl *ast.FuncDecl, c *ast.CallExpr) bool {
	fn := in.calleeOf(c)
	fd := in.newDecl[fn]
	if fd == encl {
		return false
	}
	if c.Ellipsis.IsValid() {
		return false
	}
	sig := fn.Type().(*types.Signature)
	if sig.Variadic() {
		return false
	}
	if sig.Recv() != nil {
		sel, ok := ast.Unparen(c.Fun).(*ast.SelectorExpr)
		if !ok {
			return false
		}
		if s, ok := in.info.Selections[sel]; !ok || len(s.Index()) != 1 {
			return false // promoted through embedding
		}
	}
	// free names of the helper must mean the same thing at the call site
	scope := in.pkg.Types.Scope().Innermost(c.Pos())
	if scope == nil {
		return false
	}
	ok := true
	var need [][2]string
	ast.Inspect(fd.Body, func(n ast.Node) bool {
		id, isId := n.(*ast.Ident)
		if !isId || !ok {
			return true
		}
		o := in.info.Uses[id]
		if o == nil {
			return true
		}
		switch o.(type) {
		case *types.PkgName:
			_, at := scope.LookupParent(id.Name, c.Pos())
			pn, isPn := at.(*types.PkgName)
			if at == nil {
				// the helper lives in a file that imports this package, the call site's file does not (under
				// this name): the import is added to the call site's file under the helper's name
				need = append(need, [2]string{id.Name, o.(*types.PkgName).Imported().Path()})
				return true
			}
			if !isPn || pn.Imported() != o.(*types.PkgName).Imported() {
				ok = false
			}
			return true
		}
		if o.Parent() == in.pkg.Types.Scope() || o.Parent() == types.Universe {
			_, at := scope.LookupParent(id.Name, c.Pos())
			if at != o {
				ok = false
			}
		}
		return true
	})
	if ok && len(need) > 0 {
		var f *ast.File
		for _, cand := range in.pkg.Syntax {
			if cand.Pos() <= c.Pos() && c.Pos() <= cand.End() {
				f = cand
			}
		}
		if f == nil {
			return false
		}
		if in.addNamedImp == nil {
			in.addNamedImp = map[*ast.File]map[string]string{}
		}
		if in.addNamedImp[f] == nil {
			in.addNamedImp[f] = map[string]string{}
		}
		for _, nd := range need {
			if prev, has := in.addNamedImp[f][nd[0]]; has && prev != nd[1] {
				return false
			}
			in.addNamedImp[f][nd[0]] = nd[1]
		}
	}
	return ok
}

func (in *inliner) qualifier(f *ast.File) types.Qualifier {
	return func(p *types.Package) string {
		if p == in.pkg.Types {
			return ""
		}
		for _, is := range f.Imports {
			path := strings.Trim(is.Path.Value, `"`)
			if path == p.Path() {
				if is.Name != nil {
					if is.Name.Name == "." || is.Name.Name == "_" {
						break
					}
					return is.Name.Name
				}
				return p.Name()
			}
		}
		if in.addImp[f] == nil {
			in.addImp[f] = map[string]string{}
		}
		if a, ok := in.addImp[f][p.Path()]; ok {
			return a
		}
		a := fmt.Sprintf("inlimp%d_%s", len(in.addImp[f]), p.Name())
		in.addImp[f][p.Path()] = a
		return a
	}
}

// expand rewrites statement s: the call c is evaluated by an expanded copy of its callee in front of
// s and replaced by the result temporaries.
func (in *inliner) expand(f *ast.File, encl *ast.FuncDecl, s ast.Stmt, c *ast.CallExpr, wrap bool) int {
	fn := in.calleeOf(c)
	fd := in.newDecl[fn]
	cf := in.declFile[fd]
	sig := fn.Type().(*types.Signature)
	in.counter++
	k := fmt.Sprintf("%d_%d", in.round, in.counter)
	q := in.qualifier(f)
	// a type of this package whose name is shadowed by a local at the call site (`request *request`) is
	// spelled through a package-level alias added to the overlay
	ts := func(t types.Type) string {
		str := types.TypeString(t, q)
		for _, nm := range in.shadowedTypeNames(t, c.Pos()) {
			alias := fmt.Sprintf("__sh%d_%s", in.round, nm)
			re := regexp.MustCompile(`(^|[^.A-Za-z0-9_])` + regexp.QuoteMeta(nm) + `\b`)
			str = re.ReplaceAllString(str, "${1}"+alias)
			if in.addAlias == nil {
				in.addAlias = map[string]*ast.File{}
			}
			if _, has := in.addAlias[nm]; !has {
				in.addAlias[nm] = f
			}
		}
		return str
	}

	var hoist strings.Builder
	// result temporaries
	var rnames []string
	for i := 0; i < sig.Results().Len(); i++ {
		rn := fmt.Sprintf("__r%d_%s", i, k)
		rnames = append(rnames, rn)
		fmt.Fprintf(&hoist, "var %s %s; _ = %s; ", rn, ts(sig.Results().At(i).Type()), rn)
	}
	hoist.WriteString("{ ")
	// argument temporaries (receiver first)
	type bind struct{ name, typ, tmp string }
	var binds []bind
	if sig.Recv() != nil {
		sel := ast.Unparen(c.Fun).(*ast.SelectorExpr)
		rx := in.text(f, sel.X.Pos(), sel.X.End())
		xt := in.info.TypeOf(sel.X)
		_, recvPtr := sig.Recv().Type().(*types.Pointer)
		_, argPtr := xt.Underlying().(*types.Pointer)
		if recvPtr && !argPtr {
			rx = "&(" + rx + ")"
		} else if !recvPtr && argPtr {
			rx = "*(" + rx + ")"
		}
		tmp := fmt.Sprintf("__a_recv_%s", k)
		fmt.Fprintf(&hoist, "var %s %s = %s; ", tmp, ts(sig.Recv().Type()), rx)
		name := "_"
		if len(fd.Recv.List[0].Names) > 0 {
			name = fd.Recv.List[0].Names[0].Name
		}
		binds = append(binds, bind{name, ts(sig.Recv().Type()), tmp})
	}
	pi := 0
	for _, fld := range fd.Type.Params.List {
		names := fld.Names
		if len(names) == 0 {
			names = []*ast.Ident{{Name: "_"}}
		}
		for _, nm := range names {
			if pi >= len(c.Args) {
				return 0
			}
			a := c.Args[pi]
			tmp := fmt.Sprintf("__a%d_%s", pi, k)
			pt := ts(sig.Params().At(pi).Type())
			// the type is spelled out only where it is needed (conversion to an interface, untyped constants):
			// at the call site a local may shadow the type's name (`request := …; f(request)` with a parameter
			// of type *request)
			if at := in.info.TypeOf(a); at != nil && types.Identical(at, sig.Params().At(pi).Type()) && in.typeNameShadowed(sig.Params().At(pi).Type(), c.Pos()) {
				fmt.Fprintf(&hoist, "%s := %s; ", tmp, in.text(f, a.Pos(), a.End()))
			} else {
				fmt.Fprintf(&hoist, "var %s %s = %s; ", tmp, pt, in.text(f, a.Pos(), a.End()))
			}
			binds = append(binds, bind{nm.Name, pt, tmp})
			pi++
		}
	}
	hoist.WriteString("{ ")
	for _, b := range binds {
		if b.name == "_" {
			fmt.Fprintf(&hoist, "_ = %s; ", b.tmp)
			continue
		}
		fmt.Fprintf(&hoist, "%s := %s; _ = %s; ", b.name, b.tmp, b.name)
	}
	// named results live inside the block
	var named []string
	if fd.Type.Results != nil {
		ri := 0
		for _, fld := range fd.Type.Results.List {
			for _, nm := range fld.Names {
				if nm.Name != "_" {
					fmt.Fprintf(&hoist, "var %s %s; _ = %s; ", nm.Name, ts(sig.Results().At(ri).Type()), nm.Name)
				}
				named = append(named, nm.Name)
				ri++
			}
			if len(fld.Names) == 0 {
				ri++
			}
		}
	}
	label := "__inl" + k
	hoist.WriteString(label + ": switch { default:\n")
	// body of the helper with returns rewritten
	body := in.rewriteBody(cf, fd, rnames, named, label, k)
	cfile := in.fset.File(fd.Pos())
	bodyStart := in.fset.Position(fd.Body.Lbrace)
	_ = cfile
	fmt.Fprintf(&hoist, "//line %s:%d\n", bodyStart.Filename, bodyStart.Line+1)
	hoist.WriteString(body)
	// deferred calls at the natural end, then leave
	hoist.WriteString("\n" + in.deferText(cf, fd, len(fd.Body.List), k) + "break " + label + " } } }\n")

	// replace the call by its result(s)
	repl := strings.Join(rnames, ", ")
	if len(rnames) == 0 {
		repl = "struct{}{}"
	}
	sfile := in.fset.File(s.Pos())
	spos := in.fset.Position(s.Pos())
	_ = sfile
	lineDir := fmt.Sprintf("//line %s:%d\n", spos.Filename, spos.Line)
	pre := hoist.String() + lineDir
	if es, ok := s.(*ast.ExprStmt); ok && es.X == ast.Expr(c) {
		// the statement is just the call
		in.add(f, in.off(s.Pos()), in.off(s.End()), pre+"_ = 0")
		return 1
	}
	if wrap {
		in.add(f, in.off(s.Pos()), in.off(s.Pos()), "{ "+pre)
		in.add(f, in.off(c.Pos()), in.off(c.End()), repl)
		in.add(f, in.off(s.End()), in.off(s.End()), " }")
		return 1
	}
	in.add(f, in.off(s.Pos()), in.off(s.Pos()), pre)
	in.add(f, in.off(c.Pos()), in.off(c.End()), repl)
	return 1
}

// deferText: the deferred calls registered by the top-level statements before index upto, LIFO.
func (in *inliner) deferText(cf *ast.File, fd *ast.FuncDecl, upto int, k string) string {
	var calls []string
	for i, s := range fd.Body.List {
		if i >= upto {
			break
		}
		if d, ok := s.(*ast.DeferStmt); ok {
			var args []string
			for ai, a := range d.Call.Args {
				if pureExpr(a) {
					args = append(args, strings.ReplaceAll(in.text(cf, a.Pos(), a.End()), "\n", " "))
				} else {
					args = append(args, fmt.Sprintf("__d%d_%d_%s", i, ai, k))
				}
			}
			calls = append(calls, in.text(cf, d.Call.Fun.Pos(), d.Call.Fun.End())+"("+strings.Join(args, ", ")+")")
		}
	}
	var sb strings.Builder
	for i := len(calls) - 1; i >= 0; i-- {
		sb.WriteString(calls[i] + "; ")
	}
	return sb.String()
}

// rewriteBody returns the helper's body text (from the line after its opening brace) with every
// return of the helper itself turned into assignments to the result temporaries plus a break, the
// top-level defers removed (they are replayed at the returns) and labels made unique.
func (in *inliner) rewriteBody(cf *ast.File, fd *ast.FuncDecl, rnames, named []string, label, k string) string {
	src := in.content(cf)
	tf := in.fset.File(fd.Pos())
	startLine := tf.PositionFor(fd.Body.Lbrace, false).Line + 1
	var start int
	if startLine > tf.LineCount() {
		start = in.off(fd.Body.Rbrace)
	} else {
		start = tf.Offset(tf.LineStart(startLine))
	}
	end := in.off(fd.Body.Rbrace)
	if start > end {
		start = in.off(fd.Body.Lbrace) + 1
	}
	type ed struct {
		pos, end int
		text     string
	}
	var eds []ed
	topIndex := func(n ast.Node) int {
		for i, s := range fd.Body.List {
			if s.Pos() <= n.Pos() && n.End() <= s.End() {
				return i
			}
		}
		return len(fd.Body.List)
	}
	labels := map[string]bool{}
	ast.Inspect(fd.Body, func(n ast.Node) bool {
		if ls, ok := n.(*ast.LabeledStmt); ok {
			labels[ls.Label.Name] = true
		}
		return true
	})
	var walk func(n ast.Node) bool
	walk = func(n ast.Node) bool {
		switch x := n.(type) {
		case *ast.FuncLit:
			return false
		case *ast.DeferStmt:
			txt := "_ = 0"
			di := topIndex(x)
			for ai, a := range x.Call.Args {
				if !pureExpr(a) {
					tmp := fmt.Sprintf("__d%d_%d_%s", di, ai, k)
					txt += "; " + tmp + " := " + strings.ReplaceAll(in.text(cf, a.Pos(), a.End()), "\n", " ") + "; _ = " + tmp
				}
			}
			eds = append(eds, ed{in.off(x.Pos()), in.off(x.End()), txt})
			return false
		case *ast.LabeledStmt:
			eds = append(eds, ed{in.off(x.Label.Pos()), in.off(x.Label.End()), x.Label.Name + "_" + k})
		case *ast.BranchStmt:
			if x.Label != nil && labels[x.Label.Name] {
				eds = append(eds, ed{in.off(x.Label.Pos()), in.off(x.Label.End()), x.Label.Name + "_" + k})
			}
		case *ast.ReturnStmt:
			var sb strings.Builder
			sb.WriteString("{ ")
			if len(x.Results) > 0 {
				var rs []string
				for _, r := range x.Results {
					rs = append(rs, strings.ReplaceAll(in.text(cf, r.Pos(), r.End()), "\n", " "))
				}
				if len(rnames) > 0 {
					sb.WriteString(strings.Join(rnames, ", ") + " = " + strings.Join(rs, ", ") + "; ")
				}
			} else if len(named) > 0 && len(rnames) == len(named) {
				var ns []string
				for _, nm := range named {
					if nm == "_" {
						// blank named result: its value is the zero value already held by the temporary
						ns = nil
						break
					}
					ns = append(ns, nm)
				}
				if ns != nil {
					sb.WriteString(strings.Join(rnames, ", ") + " = " + strings.Join(ns, ", ") + "; ")
				}
			}
			sb.WriteString(in.deferText(cf, fd, topIndex(x), k))
			sb.WriteString("break " + label + " }")
			eds = append(eds, ed{in.off(x.Pos()), in.off(x.End()), sb.String()})
			return false
		}
		return true
	}
	ast.Inspect(fd.Body, walk)
	sort.Slice(eds, func(i, j int) bool { return eds[i].pos < eds[j].pos })
	var out bytes.Buffer
	cur := start
	for _, e := range eds {
		if e.pos < cur || e.end > end {
			continue
		}
		out.Write(src[cur:e.pos])
		// keep the line structure: a replaced multi-line statement keeps its newlines
		nl := bytes.Count(src[e.pos:e.end], []byte("\n"))
		out.WriteString(e.text)
		out.WriteString(strings.Repeat("\n", nl))
		cur = e.end
	}
	out.Write(src[cur:end])
	return out.String()
}

// writeFieldBaseline records the fields of the module's struct types: "rel Type field <tab> type".
func writeFieldBaseline(dir, tags, out string) error {
	cfg := &packages.Config{Mode: packages.LoadAllSyntax, Dir: dir,
		Env: append(os.Environ(), "GOFLAGS=-mod=mod", "GOPROXY=off", "GOSUMDB=off", "GOTOOLCHAIN=local", "GOWORK=off")}
	if tags != "" {
		cfg.BuildFlags = []string{"-tags=" + tags}
	}
	pkgs, err := packages.Load(cfg, "./...")
	if err != nil {
		return err
	}
	var lines []string
	for _, p := range pkgs {
		if p.Types == nil || !inModule(p.Types) {
			continue
		}
		sc := p.Types.Scope()
		for _, n := range sc.Names() {
			tn, ok := sc.Lookup(n).(*types.TypeName)
			if !ok {
				continue
			}
			st, ok := tn.Type().Underlying().(*types.Struct)
			if !ok {
				continue
			}
			for i := 0; i < st.NumFields(); i++ {
				f := st.Field(i)
				lines = append(lines, fmt.Sprintf("%s %s %s\t%s\t%d/%d", relPkg(p.PkgPath), n, f.Name(), types.TypeString(f.Type(), nil), i, st.NumFields()))
			}
		}
	}
	sort.Strings(lines)
	hdr := "# fields of the module's struct types in the tree the rules were confirmed on (rel type field <tab> type <tab> index/count);\n# a field the rules look for that is gone is matched to the one new field of the same type in that struct\n"
	return os.WriteFile(out, []byte(hdr+strings.Join(lines, "\n")+"\n"), 0o644)
}

// baselineFields: "rel Type field" -> type string (loaded on first use).
var baselineFields map[string]string

func loadFieldBaseline() map[string]string {
	if baselineFields != nil {
		return baselineFields
	}
	baselineFields = map[string]string{}
	if verifDirGlobal == "" {
		return baselineFields
	}
	b, err := os.ReadFile(filepath.Join(verifDirGlobal, "checker", "baseline_fields.txt"))
	if err != nil {
		return baselineFields
	}
	for _, ln := range strings.Split(string(b), "\n") {
		if ln == "" || strings.HasPrefix(ln, "#") {
			continue
		}
		if i := strings.Index(ln, "\t"); i >= 0 {
			baselineFields[ln[:i]] = ln[i+1:]
		}
	}
	return baselineFields
}

// unnameResults rewrites the functions of file f that have named results and in which no function literal
// mentions a result name: the names leave the signature, become locals declared on the line of the
// opening brace, and every bare `return` lists them. Line numbers are unchanged. Returns the new
// source and the number of functions rewritten.
func unnameResults(fset *token.FileSet, f *ast.File, src []byte, isNewFunc func(*ast.FuncDecl) bool) ([]byte, int) {
	type edit struct {
		from, to int
		text     string
	}
	var edits []edit
	n := 0
	off := func(p token.Pos) int { return fset.PositionFor(p, false).Offset }
	for _, d := range f.Decls {
		fd, ok := d.(*ast.FuncDecl)
		if !ok || fd.Body == nil || fd.Type.Results == nil {
			continue
		}
		// a flag helper new to the tree written as a cascade (`if a { return true }; if b { return true };
		// return c`) is spelled as one expression (`return a || b || c`): expanded in place, its tests
		// are then ordinary short-circuit branches the path rules can follow
		if isNewFunc != nil && isNewFunc(fd) && len(fd.Type.Results.List) == 1 && len(fd.Type.Results.List[0].Names) == 0 {
			if id, isId := fd.Type.Results.List[0].Type.(*ast.Ident); isId && id.Name == "bool" {
				list := fd.Body.List
				k := len(list) - 1
				if last, isRet := list[k].(*ast.ReturnStmt); k >= 1 && isRet && len(last.Results) == 1 {
					acc := "(" + string(src[off(last.Results[0].Pos()):off(last.Results[0].End())]) + ")"
					first := k
					for i := k - 1; i >= 0; i-- {
						ifs, isIf := list[i].(*ast.IfStmt)
						if !isIf || ifs.Init != nil || ifs.Else != nil || len(ifs.Body.List) != 1 {
							break
						}
						rs, isR := ifs.Body.List[0].(*ast.ReturnStmt)
						if !isR || len(rs.Results) != 1 {
							break
						}
						lit, isL := rs.Results[0].(*ast.Ident)
						if !isL || (lit.Name != "true" && lit.Name != "false") {
							break
						}
						cond := "(" + string(src[off(ifs.Cond.Pos()):off(ifs.Cond.End())]) + ")"
						if lit.Name == "true" {
							acc = "(" + cond + " || " + acc + ")"
						} else {
							acc = "(!" + cond + " && " + acc + ")"
						}
						first = i
					}
					if first < k {
						edits = append(edits, edit{off(list[first].Pos()), off(last.End()), "return " + acc})
						n++
					}
				}
			}
		}
		var names []string
		named := false
		for _, fl := range fd.Type.Results.List {
			for _, nm := range fl.Names {
				named = true
				names = append(names, nm.Name)
			}
		}
		if !named {
			continue
		}
		skip := false
		for _, nm := range names {
			if nm == "_" {
				skip = true
			}
		}
		isName := map[string]bool{}
		for _, nm := range names {
			isName[nm] = true
		}
		ast.Inspect(fd.Body, func(x ast.Node) bool {
			if fl, ok := x.(*ast.FuncLit); ok {
				ast.Inspect(fl, func(y ast.Node) bool {
					if id, ok := y.(*ast.Ident); ok && isName[id.Name] {
						skip = true
					}
					return true
				})
				return false
			}
			return true
		})
		if skip {
			continue
		}
		// signature: types only; locals: one var per result field
		var types_, decls []string
		for _, fl := range fd.Type.Results.List {
			t := string(src[off(fl.Type.Pos()):off(fl.Type.End())])
			var ns []string
			for _, nm := range fl.Names {
				ns = append(ns, nm.Name)
				types_ = append(types_, t)
			}
			decls = append(decls, "var "+strings.Join(ns, ", ")+" "+t+"; ")
			for _, nm := range ns {
				decls = append(decls, "_ = "+nm+"; ")
			}
		}
		edits = append(edits, edit{off(fd.Type.Results.Pos()), off(fd.Type.Results.End()), "(" + strings.Join(types_, ", ") + ")"})
		edits = append(edits, edit{off(fd.Body.Lbrace) + 1, off(fd.Body.Lbrace) + 1, " " + strings.Join(decls, "")})
		ast.Inspect(fd.Body, func(x ast.Node) bool {
			if _, ok := x.(*ast.FuncLit); ok {
				return false
			}
			if rs, ok := x.(*ast.ReturnStmt); ok && len(rs.Results) == 0 {
				edits = append(edits, edit{off(rs.Pos()), off(rs.End()), "return " + strings.Join(names, ", ")})
			}
			return true
		})
		n++
	}
	if n == 0 {
		return nil, 0
	}
	sort.Slice(edits, func(i, j int) bool { return edits[i].from > edits[j].from })
	out := append([]byte{}, src...)
	for _, e := range edits {
		out = append(out[:e.from], append([]byte(e.text), out[e.to:]...)...)
	}
	return out, n
}

// typeNameShadowed: a package-level type named in t is hidden at pos by a local of the same name (so the type
// cannot be written there).
func (in *inliner) typeNameShadowed(t types.Type, pos token.Pos) bool {
	return len(in.shadowedTypeNames(t, pos)) > 0
}

// shadowedTypeNames: the named types of this package occurring in t whose name denotes something else
// at pos.
func (in *inliner) shadowedTypeNames(t types.Type, pos token.Pos) []string {
	scope := in.pkg.Types.Scope().Innermost(pos)
	if scope == nil {
		return nil
	}
	var names []string
	seenN := map[string]bool{}
	shadowed := false
	var walk func(t types.Type, d int)
	walk = func(t types.Type, d int) {
		if d > 4 || t == nil {
			return
		}
		switch x := t.(type) {
		case *types.Pointer:
			walk(x.Elem(), d+1)
		case *types.Slice:
			walk(x.Elem(), d+1)
		case *types.Array:
			walk(x.Elem(), d+1)
		case *types.Map:
			walk(x.Key(), d+1)
			walk(x.Elem(), d+1)
		case *types.Chan:
			walk(x.Elem(), d+1)
		case *types.Named:
			if x.Obj() != nil && x.Obj().Pkg() == in.pkg.Types {
				if _, o := scope.LookupParent(x.Obj().Name(), pos); o != nil {
					if _, isType := o.(*types.TypeName); !isType {
						shadowed = true
						if !seenN[x.Obj().Name()] {
							seenN[x.Obj().Name()] = true
							names = append(names, x.Obj().Name())
						}
					}
				}
			}
		}
	}
	walk(t, 0)
	_ = shadowed
	return names
}
