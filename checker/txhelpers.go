package main

import (
	"go/types"

	"golang.org/x/tools/go/ssa"
)

// ---------------------------------------------------------------------------------------------
// loops

// loopBody returns the natural loop of header h (nil if h is not a loop header).
func loopBody(h *ssa.BasicBlock) map[*ssa.BasicBlock]bool {
	var srcs []*ssa.BasicBlock
	for _, p := range h.Preds {
		if h.Dominates(p) {
			srcs = append(srcs, p)
		}
	}
	if len(srcs) == 0 {
		return nil
	}
	body := map[*ssa.BasicBlock]bool{h: true}
	stack := append([]*ssa.BasicBlock{}, srcs...)
	for len(stack) > 0 {
		b := stack[len(stack)-1]
		stack = stack[:len(stack)-1]
		if body[b] {
			continue
		}
		body[b] = true
		for _, p := range b.Preds {
			if !body[p] {
				stack = append(stack, p)
			}
		}
	}
	return body
}

// enclosingLoops returns the headers of all loops containing b, innermost first.
func enclosingLoops(b *ssa.BasicBlock) []*ssa.BasicBlock {
	var out []*ssa.BasicBlock
	for h := b; h != nil; h = h.Idom() {
		if body := loopBody(h); body != nil && body[b] {
			out = append(out, h)
		}
	}
	return out
}

// inLoop reports whether instruction in lies in the loop with header h.
func inLoop(in ssa.Instruction, h *ssa.BasicBlock) bool {
	body := loopBody(h)
	return body != nil && body[in.Block()]
}

// iterationCounts explores every path of one iteration of the loop with header h (from h back to
// h) and returns the set of possible sums of ev() over the instructions executed (clamped to
// [-3,3]). Paths leaving the loop are ignored. A witness path is returned per distinct count.
func iterationCounts(h *ssa.BasicBlock, ev func(ssa.Instruction) int) map[int][]*ssa.BasicBlock {
	body := loopBody(h)
	res := map[int][]*ssa.BasicBlock{}
	if body == nil {
		return res
	}
	type st struct {
		nd walkNode
		n  int
	}
	seen := map[st]bool{}
	type item struct {
		s    st
		path []*ssa.BasicBlock
	}
	work := []item{{st{walkNode{b: h}, 0}, []*ssa.BasicBlock{h}}}
	for len(work) > 0 {
		it := work[len(work)-1]
		work = work[:len(work)-1]
		if seen[it.s] {
			continue
		}
		seen[it.s] = true
		n := it.s.n
		blk := it.s.nd.b
		for _, in := range blk.Instrs {
			n += ev(in)
		}
		if n > 3 {
			n = 3
		}
		if n < -3 {
			n = -3
		}
		for i, s := range blk.Succs {
			if !it.s.nd.feasibleEdge(i) {
				continue
			}
			if s == h {
				// a path that comes back only to leave (`more = false; continue`): not an iteration that
				// stays in the loop
				if len(h.Succs) == 2 {
					nn := it.s.nd.step(i)
					stays := false
					for j, s2 := range h.Succs {
						if body[s2] && nn.feasibleEdge(j) {
							stays = true
						}
					}
					if !stays {
						continue
					}
				}
				if _, ok := res[n]; !ok {
					res[n] = append(append([]*ssa.BasicBlock{}, it.path...), h)
				}
				continue
			}
			if !body[s] {
				continue
			}
			np := append(append([]*ssa.BasicBlock{}, it.path...), s)
			work = append(work, item{st{it.s.nd.step(i), n}, np})
		}
	}
	return res
}

// rangedSlice: if h is the header of a `for i := range S` / `for _, x := range S` loop over a slice,
// returns S (the value whose len bounds the loop).
func rangedSlice(h *ssa.BasicBlock) ssa.Value {
	iff, ok := lastIf(h)
	if !ok {
		return nil
	}
	bin, ok := iff.Cond.(*ssa.BinOp)
	if !ok {
		return nil
	}
	if l := lenOf(bin.Y); l != nil {
		return l
	}
	if l := lenOf(bin.X); l != nil {
		return l
	}
	// other spellings of the same loop: `i <= len(S)-1`, a hoisted `n := len(S)`, counting down from
	// len(S)-1 to 0: the counted interval is [0, len(S)-1]
	if cl := countedLoopAt(h); cl != nil {
		if k, isC := cl.lo.isConst(); isC && k == 0 {
			top := cl.hi.plusConst(1)
			if len(top.terms) == 1 && top.k == 0 {
				for t, cf := range top.terms {
					if cf == 1 {
						if l := lenOf(top.atoms[t]); l != nil {
							return l
						}
					}
				}
			}
		}
	}
	return nil
}

// loopsRangingOver returns the loop headers in fn that range over a slice satisfying match.
func loopsRangingOver(fn *ssa.Function, match func(ssa.Value) bool) []*ssa.BasicBlock {
	var out []*ssa.BasicBlock
	for _, b := range fn.Blocks {
		if loopBody(b) == nil {
			continue
		}
		if s := rangedSlice(b); s != nil && match(s) {
			out = append(out, b)
		}
	}
	return out
}

// ---------------------------------------------------------------------------------------------
// client.Tx / client.TxState shapes

type txAnchors struct {
	txState                                 *types.Var // client.Tx.State
	txTx, txOutputs                         *types.Var
	safe, unsafe, cancelled, depth, proof   *types.Var // client.TxState.*
	updTxID, updState                       *types.Var // client.TxUpdate.*
	clientTx, clientTxUpdate, clientTxState *types.Named
}

func (c *Check) txAnchors(rule string) *txAnchors {
	a := &txAnchors{
		txState:        c.P.Field("client", "Tx", "State"),
		txTx:           c.P.Field("client", "Tx", "Tx"),
		txOutputs:      c.P.Field("client", "Tx", "Outputs"),
		safe:           c.P.Field("client", "TxState", "Safe"),
		unsafe:         c.P.Field("client", "TxState", "UnSafe"),
		cancelled:      c.P.Field("client", "TxState", "Cancelled"),
		depth:          c.P.Field("client", "TxState", "UnconfirmedDepth"),
		proof:          c.P.Field("client", "TxState", "MerkleProof"),
		updTxID:        c.P.Field("client", "TxUpdate", "TxID"),
		updState:       c.P.Field("client", "TxUpdate", "State"),
		clientTx:       c.P.NamedType("client", "Tx"),
		clientTxUpdate: c.P.NamedType("client", "TxUpdate"),
		clientTxState:  c.P.NamedType("client", "TxState"),
	}
	if a.txState == nil || a.safe == nil || a.unsafe == nil || a.cancelled == nil || a.proof == nil || a.updTxID == nil || a.updState == nil || a.txTx == nil {
		c.Undecided(rule, "anchor:client.Tx/TxState/TxUpdate fields", 0, "expected fields not found")
		return nil
	}
	return a
}

// stateFieldStore describes `obj.State.<flag> = val`.
type stateFieldStore struct {
	St    *ssa.Store
	Obj   ssa.Value // the *client.Tx (or the TxState aggregate base) the flag belongs to
	Field *types.Var
}

// stateStores lists the stores to client.TxState fields in fn.
func (a *txAnchors) stateStores(fn *ssa.Function) []stateFieldStore {
	var out []stateFieldStore
	for _, b := range fn.Blocks {
		for _, in := range b.Instrs {
			st, ok := in.(*ssa.Store)
			if !ok {
				continue
			}
			fa, ok := st.Addr.(*ssa.FieldAddr)
			if !ok {
				continue
			}
			f := fieldOfAddr(fa)
			if f != a.safe && f != a.unsafe && f != a.cancelled && f != a.depth && f != a.proof {
				continue
			}
			obj := fa.X
			if outer, ok := fa.X.(*ssa.FieldAddr); ok && fieldOfAddr(outer) == a.txState {
				obj = outer.X
			}
			out = append(out, stateFieldStore{st, obj, f})
		}
	}
	return out
}

// stateFlagLoad: v is `obj.State.<flag>` (load); returns obj and the flag.
func (a *txAnchors) stateFlagLoad(v ssa.Value) (ssa.Value, *types.Var) {
	u, ok := stripConv(v).(*ssa.UnOp)
	if !ok {
		return nil, nil
	}
	fa, ok := u.X.(*ssa.FieldAddr)
	if !ok {
		return nil, nil
	}
	f := fieldOfAddr(fa)
	if f != a.safe && f != a.unsafe && f != a.cancelled && f != a.proof {
		return nil, nil
	}
	obj := fa.X
	if outer, ok := fa.X.(*ssa.FieldAddr); ok && fieldOfAddr(outer) == a.txState {
		obj = outer.X
	}
	return obj, f
}

// handlerInvokes lists the client.Handler callback invocations named name in fn.
func (c *Check) handlerInvokes(fn *ssa.Function, names ...string) []Site {
	h := c.P.NamedType("client", "Handler")
	var out []Site
	for _, s := range sitesIn(fn) {
		if !s.CC.IsInvoke() || h == nil || !types.Identical(s.CC.Value.Type(), h) {
			continue
		}
		for _, n := range names {
			if s.CC.Method.Name() == n {
				out = append(out, s)
			}
		}
	}
	return out
}

// sameObject: two values denote the same SSA object after stripping conversions (phi-aware: one
// is among the other's phi inputs).
func sameObject(x, y ssa.Value) bool {
	x, y = stripConv(x), stripConv(y)
	if x == y {
		return true
	}
	if p, ok := x.(*ssa.Phi); ok {
		for _, e := range p.Edges {
			if stripConv(e) == y {
				return true
			}
		}
	}
	if p, ok := y.(*ssa.Phi); ok {
		for _, e := range p.Edges {
			if stripConv(e) == x {
				return true
			}
		}
	}
	return false
}

// selfOrCond: the store is `x.f = x.f || c` (in SSA: a phi of the constant true, on the edge that comes from
// testing the old x.f true, and c): it changes the flag only when c holds and then sets it - the same
// as `if c { x.f = true }`. Returns c, or nil.
func selfOrCond(st *ssa.Store) ssa.Value {
	fa, ok := st.Addr.(*ssa.FieldAddr)
	if !ok {
		return nil
	}
	f := fieldOfAddr(fa)
	phi, ok := st.Val.(*ssa.Phi)
	if !ok || len(phi.Edges) != 2 || f == nil {
		return nil
	}
	for i, e := range phi.Edges {
		b, isC := isConstBool(e)
		if !isC || !b {
			continue
		}
		pred := phi.Block().Preds[i]
		iff, isIf := lastIf(pred)
		if !isIf || pred.Succs[0] != phi.Block() {
			continue
		}
		cd := normCond(iff.Cond)
		if cd.Neg {
			continue
		}
		old := loadOfField(cd.V, f)
		if old == nil || !sameExpr(old.X, fa.X) {
			continue
		}
		return phi.Edges[1-i]
	}
	return nil
}
