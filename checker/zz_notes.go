package main

// Rules added after the third seeding round and the mechanical mutation sweep, per property (appended
// to the property's explanation so that evidence and MANIFEST name every rule that can report).
var laterRules = map[string]string{
	"C01": "(R11) BlockRequestsEmpty answers true only where both request lists were found empty; (R12) processBlocks leaves with ProcessBlock's error only behind inequality tests against every sentinel ProcessBlock returns; (R13) admitted block requests go out (AddInvVect followed by a hand-over, replaced only after hand-over, new message after hand-over); (R14) CheckTimeouts: elapsed > constant limit per watched request, expired => non-nil error, request times loaded behind their nil tests; (R15) Node.restart is never called only behind isStopping()==true; (R16) ClearBlockRequestsAfter cuts right after the fork point; (R17) SetPendingSync only for an empty or single-header reply; (R18) NextBlock moves the last saved hash with the pop. (R19) NextBlock moves the last saved hash only together with the pop; (R20) the last-hash getter answers from each list only behind the exact emptiness tests of the newer lists.",
	"C02": "(R11) Revert collects the hashes of exactly the heights new tip+1 .. old tip (counted-loop interval of the getter's height argument); (R12) the recorded start height is LastHeight()+1. (R13) every non-error path of ProcessBlock after blocks.Add passes the HandleHeaders announcement; (R14) a blocks.LastHash() value stored with SetLastHash is not read before a chain-moving call that precedes the store; (R15) genesis is registered at the constant height 0.",
	"C03": "(R13) fetched outputs are read at a bounded, advancing cursor; (R14) the in-mempool flag is never constant true where the mempool is not consulted; (R15) confirmation notifications follow a merkle-proof store and depth 0; (R16) parent-output index behind index < len; (R17) per-tx flag lists aligned with the delivered list; (R18) the parent read for an input is fetched in the same iteration. (R19) the Add methods of the guarded channels hand over with a plain blocking send; (R20) constructor wiring: same-named same-typed parameters and fields / argument slots agree.",
	"C04": "(R8) confirmation notifications follow a merkle-proof store and depth 0 (literal depths are 0); (R9) MerkleProof codec pair. (R10) no whole client.Tx / client.TxState is stored through a pointer the function did not allocate.",
	"C05": "(R9) the loop over a new tx's conflicts visits every conflict; (R10) the conflict accumulator extends itself; (R11) removal splices remove exactly one element; (R12) created mempool entries are registered; (R13) the conflict list never aliases an index list. (R14) every iteration over a tx's inputs appends the outpoint (a skip only behind a lookup keyed by the whole outpoint); (R15) AddTransaction / AddRequest never reach removeTransaction or delete from the mempool maps.",
	"C06": "(R10) the cancel steps are reached only for conflicting txs other than the block tx itself. (R11) = C05.R15.",
	"C07": "(R7) the delay checker visits every newly safe tx; (R8) memPoolTx.trusted is set only from a trusted source. (R9) a store into MemPool.txs only behind the lookup having found no entry; (R10) stored flags safe / unsafe / trusted are only raised.",
	"C08": "(R8) subscribe / unsubscribe loops visit every listed push data; (R9) removal splices; (R10) IsRelevant answers true only behind checkContracts()==true or a subscribed hash comparing equal. (R11) every iteration over the outputs hands the script to protocol.Deserialize.",
	"C09": "(R13) the three height getters agree on guards, cache index, file read and offset (linear normal forms); (R14) GetHeaders reads exactly maxCount heights from the resolved start; (R15) Revert's file walk starts below the tip's file; (R16) the latest headers start at LastHeight()-maxCount+1. (R17) genesis is registered at the constant height 0 (reaching constant store of the height field).",
	"C10": "(R8) = C09.R15, (R9) = C09.R13, (R10) = C02.R11.",
	"C11": "(R7) the stored unconfirmed set is removed only where the in-memory set was found empty; (R8) SaveTxState writes only after serialising succeeded. (R9) = C04.R10; (R10) = C07.R10.",
	"C12": "(R6) = C07.R8, (R7) = C02.R11, (R8) parent-output index of a peer's tx behind index < len. (R9) the shared tx-processing path returns no error made on the spot beyond the two confirmed ones; (R10) constructor wiring (= C03.R20).",
	"C13": "(R11) a not-next header reaches AddBlockRequest only through the false edges of all three already-have tests; (R12) = C01.R13; (R13) = C01.R16; (R14) = C01.R18. (R15) = C01.R20; (R16) = C01.R19.",
	"C14": "(R8) the request-age test applies to entries that were requested; (R9) created mempool entries are registered; (R10) a transmitted getdata batch is not carried into the next iteration; (R11) the request time is written only when requesting; (R12) CleanupBlock forwards on every successful path. (R13) every return of the tx handlers is behind the hand-over to the tx channel, a foreign message type or a node that is not ready; (R14) constructor wiring (= C03.R20).",
	"C15": "(R2) counted loops must run exactly `bound` times (trip-count normalisation); (R6) = C11.R8. (R2, presence clause) a bool written directly in front of an optional part has exactly the condition under which the part is written.",
	"C16": "(R8) the drain loop is entered before routing (edge-threaded); (R11) removal splices; (R12) Headers responses routed by RequestHeight. (R13) each internal request / response / handler channel of RemoteClient is sent on by its one confirmed sender.",
	"C19": "(R10) = C01.R15. (R2) select send states on the guarded channels are judged like plain sends.",
	"C18": "(R9) runConnection resets accepted / handshakeComplete before starting the connection's goroutines. (R10) after a failed handleMessage the handling loop is left.",
}

const sharedRules = " Shared discipline rules over the functions this property's rules examine: (E1) a failed call is not answered with a nil error (frozen exceptions), (E2) a succeeded call's nil error is not returned as the result, (E3) a value found nil is not used on that branch, (E4) same-typed arguments are not swapped against parameter names, (E5) no function gains an early-exit loop over a collection relative to the recorded tree, (E6) results of a failed call are not used on the failure branch, (E7) a map lookup's value is not used where the key is absent, (E8) a removal inside a searching loop is behind the match."

func init() {
	for id, def := range registry {
		if s, ok := laterRules[id]; ok {
			def.Explanation += " Later rules: " + s
		}
		def.Explanation += sharedRules
	}
}
