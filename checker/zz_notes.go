package main

// Rules added after the third seeding round and the mechanical mutation sweep, per property (appended
// to the property's explanation so that evidence and MANIFEST name every rule that can report).
var laterRules = map[string]string{
	"C01": "(R11) BlockRequestsEmpty answers true only where both request lists were found empty; (R12) processBlocks leaves with ProcessBlock's error only behind inequality tests against every sentinel ProcessBlock returns; (R13) admitted block requests go out (AddInvVect followed by a hand-over, replaced only after hand-over, new message after hand-over); (R14) CheckTimeouts: elapsed > constant limit per watched request, expired => non-nil error, request times loaded behind their nil tests; (R15) Node.restart is never called only behind isStopping()==true; (R16) ClearBlockRequestsAfter cuts right after the fork point; (R17) SetPendingSync only for an empty or single-header reply; (R18) NextBlock moves the last saved hash with the pop.",
	"C02": "(R11) Revert collects the hashes of exactly the heights new tip+1 .. old tip (counted-loop interval of the getter's height argument); (R12) the recorded start height is LastHeight()+1.",
	"C03": "(R13) fetched outputs are read at a bounded, advancing cursor; (R14) the in-mempool flag is never constant true where the mempool is not consulted; (R15) confirmation notifications follow a merkle-proof store and depth 0; (R16) parent-output index behind index < len; (R17) per-tx flag lists aligned with the delivered list; (R18) the parent read for an input is fetched in the same iteration.",
	"C04": "(R8) confirmation notifications follow a merkle-proof store and depth 0 (literal depths are 0); (R9) MerkleProof codec pair.",
	"C05": "(R9) the loop over a new tx's conflicts visits every conflict; (R10) the conflict accumulator extends itself; (R11) removal splices remove exactly one element; (R12) created mempool entries are registered; (R13) the conflict list never aliases an index list.",
	"C06": "(R10) the cancel steps are reached only for conflicting txs other than the block tx itself.",
	"C07": "(R7) the delay checker visits every newly safe tx; (R8) memPoolTx.trusted is set only from a trusted source.",
	"C08": "(R8) subscribe / unsubscribe loops visit every listed push data; (R9) removal splices; (R10) IsRelevant answers true only behind checkContracts()==true or a subscribed hash comparing equal.",
	"C09": "(R13) the three height getters agree on guards, cache index, file read and offset (linear normal forms); (R14) GetHeaders reads exactly maxCount heights from the resolved start; (R15) Revert's file walk starts below the tip's file; (R16) the latest headers start at LastHeight()-maxCount+1.",
	"C10": "(R8) = C09.R15, (R9) = C09.R13, (R10) = C02.R11.",
	"C11": "(R7) the stored unconfirmed set is removed only where the in-memory set was found empty; (R8) SaveTxState writes only after serialising succeeded.",
	"C12": "(R6) = C07.R8, (R7) = C02.R11, (R8) parent-output index of a peer's tx behind index < len.",
	"C13": "(R11) a not-next header reaches AddBlockRequest only through the false edges of all three already-have tests; (R12) = C01.R13; (R13) = C01.R16; (R14) = C01.R18.",
	"C14": "(R8) the request-age test applies to entries that were requested; (R9) created mempool entries are registered; (R10) a transmitted getdata batch is not carried into the next iteration; (R11) the request time is written only when requesting; (R12) CleanupBlock forwards on every successful path.",
	"C15": "(R2) counted loops must run exactly `bound` times (trip-count normalisation); (R6) = C11.R8.",
	"C16": "(R8) the drain loop is entered before routing (edge-threaded); (R11) removal splices; (R12) Headers responses routed by RequestHeight.",
	"C19": "(R10) = C01.R15.",
	"C18": "(R9) runConnection resets accepted / handshakeComplete before starting the connection's goroutines.",
}

const sharedRules = " Shared discipline rules over the functions this property's rules examine: (E1) a failed call is not answered with a nil error (frozen exceptions), (E2) a succeeded call's nil error is not returned as the result, (E3) a value found nil is not used on that branch, (E4) same-typed arguments are not swapped against parameter names, (E5) no function gains an early-exit loop over a collection relative to the recorded tree, (E6) results of a failed call are not used on the failure branch, (E7) a map lookup's value is not used where the key is absent, (E8) a removal inside a searching loop is behind the match."

func init() {
	for id, def := range registry {
		if s, ok := laterRules[id]; ok {
			def.Explanation += " Later rules: " + s
		}
		def.Explanation += sharedRules
	}
}
