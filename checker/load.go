package main

import (
	"fmt"
	"go/ast"
	"go/token"
	"go/types"
	"os"
	"path/filepath"
	"sort"
	"strings"

	"golang.org/x/tools/go/packages"
	"golang.org/x/tools/go/ssa"
	"golang.org/x/tools/go/ssa/ssautil"
)

const modulePath = "github.com/tokenized/spynode"

// verifDirGlobal is set by main: where baseline_funcs.txt lives.
var verifDirGlobal string

// Program is the resolved view of /repo that every rule works on.
type Program struct {
	Dir     string
	Fset    *token.FileSet
	Pkgs    []*packages.Package          // module packages only
	ByRel   map[string]*packages.Package // "state", "storage", "spynode", "handlers", "client", ...
	SSA     *ssa.Program
	SSAPkgs map[string]*ssa.Package
	Funcs   map[string]*ssa.Function // key: rel.(*T).Name / rel.Name / parent$N
	AllSrc  []*ssa.Function          // all module functions incl. anonymous, sorted by key
	keyOf   map[*ssa.Function]string
	Tags    string
	Norm    []string                     // what the helper normalisation did (empty on a tree without new functions)
	Orig    map[string]*packages.Package // the packages as written (set only when an overlay is in use); grammar rules read these
}

func relPkg(path string) string {
	r := strings.TrimPrefix(path, modulePath)
	r = strings.TrimPrefix(r, "/")
	r = strings.TrimPrefix(r, "internal/")
	r = strings.TrimPrefix(r, "pkg/")
	if r == "" {
		r = "."
	}
	return r
}

func inModule(p *types.Package) bool {
	return p != nil && (p.Path() == modulePath || strings.HasPrefix(p.Path(), modulePath+"/"))
}

// Load type-checks /repo (production code only unless tests is set) and builds SSA.
func Load(dir string, tags string, tests bool, env []string) (*Program, error) {
	cfg := &packages.Config{
		Mode:  packages.LoadAllSyntax,
		Dir:   dir,
		Tests: tests,
		Env:   append(os.Environ(), env...),
	}
	cfg.Env = append(cfg.Env, "GOFLAGS=-mod=mod", "GOPROXY=off", "GOSUMDB=off", "GOTOOLCHAIN=local", "GOWORK=off")
	if tags != "" {
		cfg.BuildFlags = []string{"-tags=" + tags}
	}
	// helper normalisation: calls to functions that are not in the recorded baseline are expanded in
	// an overlay (nothing happens on a tree without new functions; /repo is never written)
	var normNotes []string
	if verifDirGlobal != "" && os.Getenv("VERIF_NO_INLINE") == "" {
		baseline, berr := loadBaseline(verifDirGlobal)
		if berr != nil {
			return nil, fmt.Errorf("baseline function list: %w", berr)
		}
		baselineGlobal = baseline
		overlay, notes, nerr := normaliseHelpers(dir, tags, env, baseline)
		if nerr != nil {
			normNotes = append(normNotes, "helper normalisation skipped: "+nerr.Error())
		} else {
			normNotes = notes
			if overlay != nil {
				cfg.Overlay = overlay
				if d := os.Getenv("VERIF_DUMP_OVERLAY"); d != "" {
					for name, data := range overlay {
						_ = os.WriteFile(filepath.Join(d, strings.ReplaceAll(strings.TrimPrefix(name, "/"), "/", "_")), data, 0o644)
					}
				}
				if d := os.Getenv("VERIF_DUMP_OVERLAY"); d != "" {
					os.MkdirAll(d, 0o755)
					for name, b := range overlay {
						os.WriteFile(filepath.Join(d, strings.ReplaceAll(strings.TrimPrefix(name, dir+"/"), "/", "__")), b, 0o644)
					}
				}
			}
		}
	}
	pkgs, err := packages.Load(cfg, "./...")
	if err != nil {
		return nil, fmt.Errorf("packages.Load: %w", err)
	}
	var errs []string
	packages.Visit(pkgs, nil, func(p *packages.Package) {
		for _, e := range p.Errors {
			errs = append(errs, e.Error())
		}
	})
	if len(errs) > 0 {
		sort.Strings(errs)
		if len(errs) > 10 {
			errs = errs[:10]
		}
		return nil, fmt.Errorf("type/load errors (no verdict):\n  %s", strings.Join(errs, "\n  "))
	}
	P := &Program{Dir: dir, ByRel: map[string]*packages.Package{}, SSAPkgs: map[string]*ssa.Package{},
		Funcs: map[string]*ssa.Function{}, keyOf: map[*ssa.Function]string{}, Tags: tags, Norm: normNotes}
	for _, p := range pkgs {
		if p.Types == nil || !inModule(p.Types) {
			continue
		}
		if strings.HasSuffix(p.ID, ".test") || strings.Contains(p.ID, " [") {
			// test variants are kept only in Pkgs (for who-may-call exclusions)
			P.Pkgs = append(P.Pkgs, p)
			continue
		}
		P.Pkgs = append(P.Pkgs, p)
		P.ByRel[relPkg(p.PkgPath)] = p
		P.Fset = p.Fset
	}
	if len(P.ByRel) < 9 {
		return nil, fmt.Errorf("only %d module packages loaded from %s (expected >= 9)", len(P.ByRel), dir)
	}
	if cfg.Overlay != nil {
		// the grammar rules (codec extraction) read the source as written, not the expanded overlay
		ocfg := *cfg
		ocfg.Overlay = nil
		if opkgs, oerr := packages.Load(&ocfg, "./..."); oerr == nil {
			P.Orig = map[string]*packages.Package{}
			for _, p := range opkgs {
				if p.Types != nil && inModule(p.Types) && !strings.HasSuffix(p.ID, ".test") && !strings.Contains(p.ID, " [") {
					P.Orig[relPkg(p.PkgPath)] = p
				}
			}
		}
	}
	prog, _ := ssautil.AllPackages(pkgs, ssa.InstantiateGenerics)
	prog.Build()
	P.SSA = prog
	for rel, p := range P.ByRel {
		sp := prog.Package(p.Types)
		if sp == nil {
			return nil, fmt.Errorf("no SSA package for %s", p.PkgPath)
		}
		P.SSAPkgs[rel] = sp
	}
	for fn := range ssautil.AllFunctions(prog) {
		if fn.Pkg == nil || !inModule(fn.Pkg.Pkg) || fn.Synthetic != "" && fn.Parent() == nil && fn.Syntax() == nil {
			continue
		}
		if _, ok := P.ByRel[relPkg(fn.Pkg.Pkg.Path())]; !ok {
			continue
		}
		if fn.Blocks == nil {
			continue
		}
		k := P.funcKey(fn)
		if k == "" {
			continue
		}
		if _, dup := P.Funcs[k]; dup {
			continue
		}
		P.Funcs[k] = fn
		P.keyOf[fn] = k
		P.AllSrc = append(P.AllSrc, fn)
	}
	sort.Slice(P.AllSrc, func(i, j int) bool { return P.keyOf[P.AllSrc[i]] < P.keyOf[P.AllSrc[j]] })
	return P, nil
}

func (P *Program) funcKey(fn *ssa.Function) string {
	if fn.Parent() != nil {
		pk := P.funcKey(fn.Parent())
		idx := 0
		for i, a := range fn.Parent().AnonFuncs {
			if a == fn {
				idx = i + 1
			}
		}
		return fmt.Sprintf("%s$%d", pk, idx)
	}
	if fn.Pkg == nil {
		return ""
	}
	rel := relPkg(fn.Pkg.Pkg.Path())
	name := fn.Name()
	if o, ok := fn.Object().(*types.Func); ok && len(renamedFuncs) > 0 {
		if old, ok := renamedFuncs[typesFuncIdent(o)]; ok {
			name = old // known to the rules under its recorded name
		}
	}
	if recv := fn.Signature.Recv(); recv != nil {
		t := recv.Type()
		ptr := false
		if p, ok := t.(*types.Pointer); ok {
			ptr = true
			t = p.Elem()
		}
		n, ok := t.(*types.Named)
		if !ok {
			return ""
		}
		if ptr {
			return fmt.Sprintf("%s.(*%s).%s", rel, n.Obj().Name(), name)
		}
		return fmt.Sprintf("%s.(%s).%s", rel, n.Obj().Name(), name)
	}
	return rel + "." + name
}

// Key returns the stable key of a module function ("" for foreign functions).
func (P *Program) Key(fn *ssa.Function) string {
	if fn == nil {
		return ""
	}
	if k, ok := P.keyOf[fn]; ok {
		return k
	}
	if fn.Pkg != nil && inModule(fn.Pkg.Pkg) {
		return P.funcKey(fn)
	}
	return ""
}

// Fn looks a function up by key; nil if absent.
func (P *Program) Fn(key string) *ssa.Function {
	if f := P.Funcs[key]; f != nil {
		return f
	}
	// the same method with the other receiver kind ((T).m <-> (*T).m)
	if i := strings.Index(key, ".("); i >= 0 {
		var alt string
		if strings.HasPrefix(key[i+2:], "*") {
			alt = key[:i+2] + key[i+3:]
		} else {
			alt = key[:i+2] + "*" + key[i+2:]
		}
		if f := P.Funcs[alt]; f != nil {
			return f
		}
	}
	return nil
}

func (P *Program) Pos(p token.Pos) string {
	if !p.IsValid() {
		return "?"
	}
	pos := P.Fset.Position(p)
	rel, err := filepath.Rel(P.Dir, pos.Filename)
	if err != nil {
		rel = pos.Filename
	}
	return fmt.Sprintf("%s:%d", rel, pos.Line)
}

// NamedType finds a named type in a module package.
func (P *Program) NamedType(rel, name string) *types.Named {
	p := P.ByRel[rel]
	if p == nil {
		return nil
	}
	o := p.Types.Scope().Lookup(name)
	if o == nil {
		return nil
	}
	n, _ := o.Type().(*types.Named)
	return n
}

// Field finds a struct field object.
func (P *Program) Field(rel, typ, field string) *types.Var {
	n := P.NamedType(rel, typ)
	if n == nil {
		return nil
	}
	st, ok := n.Underlying().(*types.Struct)
	if !ok {
		return nil
	}
	for i := 0; i < st.NumFields(); i++ {
		if st.Field(i).Name() == field {
			return st.Field(i)
		}
	}
	// the field may only have been renamed since the baseline: the single field of this struct that
	// is not in the recorded list and has the recorded type
	bf := loadFieldBaseline()
	rec, ok := bf[rel+" "+typ+" "+field]
	if !ok {
		return nil
	}
	want, wantIdx, wantCnt := rec, -1, -1
	if i := strings.Index(rec, "\t"); i >= 0 {
		want = rec[:i]
		fmt.Sscanf(rec[i+1:], "%d/%d", &wantIdx, &wantCnt)
	}
	var cands []*types.Var
	var idxs []int
	for i := 0; i < st.NumFields(); i++ {
		f := st.Field(i)
		if _, known := bf[rel+" "+typ+" "+f.Name()]; known {
			continue
		}
		if types.TypeString(f.Type(), nil) == want {
			cands = append(cands, f)
			idxs = append(idxs, i)
		}
	}
	if len(cands) == 1 {
		return cands[0]
	}
	// several renamed fields of the same type: the one at the recorded position (if the struct has
	// the recorded number of fields), else the one sharing the longest prefix with the recorded name
	if wantCnt == st.NumFields() {
		for k, i := range idxs {
			if i == wantIdx {
				return cands[k]
			}
		}
	}
	best, bestLen, tie := -1, 0, false
	for k, f := range cands {
		n := 0
		for n < len(f.Name()) && n < len(field) && f.Name()[n] == field[n] {
			n++
		}
		if n > bestLen {
			best, bestLen, tie = k, n, false
		} else if n == bestLen {
			tie = true
		}
	}
	if best >= 0 && !tie && bestLen >= 3 {
		return cands[best]
	}
	return nil
}

// Method finds the *types.Func of a method (pointer or value receiver).
func (P *Program) Method(rel, typ, name string) *types.Func {
	n := P.NamedType(rel, typ)
	if n == nil {
		return nil
	}
	for i := 0; i < n.NumMethods(); i++ {
		if n.Method(i).Name() == name {
			return n.Method(i)
		}
	}
	if it, ok := n.Underlying().(*types.Interface); ok {
		for i := 0; i < it.NumMethods(); i++ {
			if it.Method(i).Name() == name {
				return it.Method(i)
			}
		}
	}
	return nil
}

// FuncsIn returns all module functions (incl. anonymous) of a package rel path.
func (P *Program) FuncsIn(rels ...string) []*ssa.Function {
	var out []*ssa.Function
	for _, fn := range P.AllSrc {
		r := relPkg(fn.Pkg.Pkg.Path())
		for _, want := range rels {
			if r == want {
				out = append(out, fn)
			}
		}
	}
	return out
}

// FileOf returns the syntax file containing pos in a module package.
func (P *Program) FileOf(rel string, pos token.Pos) *ast.File {
	p := P.ByRel[rel]
	if p == nil {
		return nil
	}
	for _, f := range p.Syntax {
		if f.Pos() <= pos && pos <= f.End() {
			return f
		}
	}
	return nil
}

// isTestFile reports whether pos lies in a _test.go file.
func (P *Program) isTestFile(pos token.Pos) bool {
	if !pos.IsValid() {
		return false
	}
	return strings.HasSuffix(P.Fset.Position(pos).Filename, "_test.go")
}

// CodecPkg returns the package whose syntax the grammar rules read: the source as written.
func (P *Program) CodecPkg(rel string) *packages.Package {
	if P.Orig != nil {
		if p := P.Orig[rel]; p != nil {
			return p
		}
	}
	return P.ByRel[rel]
}

// baselineGlobal: the recorded baseline functions (nil if normalisation is off).
var baselineGlobal map[string]bool
