package main

import (
	"fmt"
	"go/token"
	"go/types"

	"golang.org/x/tools/go/ssa"
)

func init() {
	register(&PropDef{
		ID:    "C13",
		Title: "Blocks are fetched in order within a bounded window and processed in order",
		Explanation: "Decides structural necessary conditions of the download window in internal/state/requests.go and its users: " +
			"(R1) every append to the requested-blocks queue is reachable only through `len(requested) < 10` and a constant upper bound on the buffered-bytes counter; " +
			"(R2) every function that shrinks or replaces the requested queue also rewrites the buffered-bytes counter on the same paths, and a block body is only added to the counter when the slot was empty or its old size was subtracted; " +
			"(R3) a block body is stored only behind a hash-equality test with an existing request; " +
			"(R4) the pop takes element 0 (body, size, hash), reslices from 1 and is guarded by non-empty queue and non-nil body; " +
			"(R5) every enqueue is guarded by equality of the parent hash with the last queued/requested/saved hash; " +
			"(R6) all State fields are accessed under State.lock; " +
			"(R7) on a fork among pending blocks the requests after the fork point are cleared (guarded by the parent being pending) before the new branch is enqueued; " +
			"(R8) every block getdata item derives from a hash admitted by the window (AddBlockRequest send==true, or GetNextBlockToRequest); " +
			"(R9) when the fork point is one of the requested blocks the not-yet-requested queue is emptied on every path; (R10) a request's recorded size is overwritten only together with adding it to the buffered-bytes counter.",
		NotDecided:  "step-by-step equivalence with a reference queue over operation sequences; per-connection at-most-once requests; actual byte counts.",
		Assumptions: []string{"lock identity is the mutex field, instances are not distinguished", "wire.Block.SerializeSize is the only size source"},
		Run:         runC13,
	})
}

type stateAnchors struct {
	blocksRequested, blocksToRequest, pendingBlockSize, lastSavedHash *types.Var
	rbHash, rbBlock, rbSize                                           *types.Var
}

func (c *Check) stateAnchors(rule string) *stateAnchors {
	a := &stateAnchors{
		blocksRequested:  c.P.Field("state", "State", "blocksRequested"),
		blocksToRequest:  c.P.Field("state", "State", "blocksToRequest"),
		pendingBlockSize: c.P.Field("state", "State", "pendingBlockSize"),
		lastSavedHash:    c.P.Field("state", "State", "lastSavedHash"),
		rbHash:           c.P.Field("state", "requestedBlock", "hash"),
		rbBlock:          c.P.Field("state", "requestedBlock", "block"),
		rbSize:           c.P.Field("state", "requestedBlock", "size"),
	}
	for n, f := range map[string]*types.Var{"State.blocksRequested": a.blocksRequested, "State.blocksToRequest": a.blocksToRequest,
		"State.pendingBlockSize": a.pendingBlockSize, "State.lastSavedHash": a.lastSavedHash, "requestedBlock.hash": a.rbHash,
		"requestedBlock.block": a.rbBlock, "requestedBlock.size": a.rbSize} {
		if f == nil {
			c.Undecided(rule, "anchor:state."+n, token.NoPos, "field not found")
			return nil
		}
	}
	return a
}

// isAppendStore: st stores append(load(f), ...) back into f.
func isAppendStore(st *ssa.Store, f *types.Var) bool {
	base := appendOf(st.Val)
	return base != nil && loadOfField(base, f) != nil
}

func runC13(c *Check) {
	a := c.stateAnchors("R0")
	if a == nil {
		return
	}
	stateFns := c.P.FuncsIn("state")

	// ---- R1: window and byte limit guard every growth of blocksRequested
	nAppend := 0
	for _, fn := range stateFns {
		for _, st := range storesToField(fn, a.blocksRequested) {
			if !isAppendStore(st, a.blocksRequested) {
				continue
			}
			if fa := st.Addr.(*ssa.FieldAddr); isFreshObject(fa) {
				continue
			}
			nAppend++
			c.Touch(fn)
			key := c.P.Key(fn) + "#append-blocksRequested"
			win := upperBoundEdge(func(v ssa.Value) bool { return lenOfField(v, a.blocksRequested) }, 9)
			ok1, w1 := mustPass(st, win)
			c.Decide(ok1, "R1", key+"#window", st.Pos(), "edge-cutset", w1,
				"append reachable only through len(blocksRequested) <= 9",
				"a path reaches this append to blocksRequested without establishing len(blocksRequested) < 10 (the stated window of ten)")
			byt := upperBoundEdge(func(v ssa.Value) bool { return loadOfField(v, a.pendingBlockSize) != nil }, -1)
			ok2, w2 := mustPass(st, byt)
			c.Decide(ok2, "R1", key+"#bytes", st.Pos(), "edge-cutset", w2,
				"append reachable only through a constant upper bound on pendingBlockSize",
				"a path reaches this append to blocksRequested without an upper-bound test of pendingBlockSize (requests must pause while buffered bytes exceed the limit)")
		}
	}
	c.Min("R1", "appends to State.blocksRequested", nAppend, 2)

	// ---- R2: shrinking/replacing blocksRequested is coupled with pendingBlockSize
	nShrink := 0
	for _, fn := range stateFns {
		sts := storesToField(fn, a.blocksRequested)
		var pend []ssa.Instruction
		for _, p := range storesToField(fn, a.pendingBlockSize) {
			pend = append(pend, p)
		}
		for _, st := range sts {
			if isAppendStore(st, a.blocksRequested) {
				continue
			}
			nShrink++
			c.Touch(fn)
			key := c.P.Key(fn) + "#shrinks-blocksRequested"
			ev := withLoopHeaders(pend, st)
			okB, _ := alwaysPrecededBy(st, ev)
			okA, w := alwaysFollowedBy(st, ev, false, nil)
			c.Decide(okB || okA, "R2", key, st.Pos(), "path-typestate", w,
				"every path through this store to blocksRequested also rewrites pendingBlockSize",
				"blocksRequested is shrunk/replaced here but some path does not rewrite pendingBlockSize: buffered-bytes accounting cannot return to zero")
		}
	}
	c.Min("R2", "non-append stores to State.blocksRequested", nShrink, 4)

	// additive stores to pendingBlockSize
	nAdd := 0
	for _, fn := range stateFns {
		for _, st := range storesToField(fn, a.pendingBlockSize) {
			bin, ok := st.Val.(*ssa.BinOp)
			if !ok || bin.Op != token.ADD {
				continue
			}
			if loadOfField(bin.X, a.pendingBlockSize) == nil && loadOfField(bin.Y, a.pendingBlockSize) == nil {
				continue
			}
			nAdd++
			c.Touch(fn)
			key := c.P.Key(fn) + "#adds-pendingBlockSize"
			// guard: slot empty (requestedBlock.block == nil) or old size subtracted first
			var subs []ssa.Instruction
			for _, s2 := range storesToField(fn, a.pendingBlockSize) {
				if b2, ok := s2.Val.(*ssa.BinOp); ok && b2.Op == token.SUB && mentionsField(b2.Y, a.rbSize) {
					subs = append(subs, s2)
				}
			}
			empty := nilEdge(func(v ssa.Value) bool { return anyFieldLoad(v) == a.rbBlock }, true)
			ok2, w := mustPassOrHappen(st, empty, subs)
			c.Decide(ok2, "R2", key, st.Pos(), "edge-cutset", w,
				"the counter grows only when the slot was empty or after the slot's previous size was subtracted",
				"pendingBlockSize grows by the new body's size on a path where the request slot may already hold a body whose size was not subtracted (a duplicate block message double-counts)")
		}
	}
	c.Min("R2", "additive stores to State.pendingBlockSize", nAdd, 1)

	// ---- R3: body stored only for a matching request
	nBody := 0
	for _, fn := range stateFns {
		for _, st := range storesToField(fn, a.rbBlock) {
			if fa := st.Addr.(*ssa.FieldAddr); isFreshObject(fa) {
				continue
			}
			if cst, ok := st.Val.(*ssa.Const); ok && cst.IsNil() {
				continue
			}
			nBody++
			c.Touch(fn)
			base := st.Addr.(*ssa.FieldAddr).X
			// the element the body is stored into, as (list, index)
			elemIndex := func(v ssa.Value) ssa.Value {
				for _, r := range rootsAll(v) {
					if ia, ok := r.(*ssa.IndexAddr); ok && loadOfField(ia.X, a.blocksRequested) != nil {
						return ia.Index
					}
				}
				return nil
			}
			baseIdx := elemIndex(base)
			eq := equalEdge(func(x, y ssa.Value) bool {
				if !mentionsField(x, a.rbHash) || !derivesFromAnyParam(y, fn) {
					return false
				}
				if derivesFromValue(x, base) {
					return true
				}
				// the same element re-read through the index a search handed out (index of the match or -1)
				if xi := elemIndex(x); xi != nil && baseIdx != nil {
					if linOfValue(xi).equal(linOfValue(baseIdx)) {
						return true
					}
					if fi := foundIndexOf(baseIdx); fi != nil && linOfValue(fi).equal(linOfValue(xi)) {
						return true
					}
				}
				return false
			}, true)
			ok, w := mustPass(st, eq)
			c.Decide(ok, "R3", c.P.Key(fn)+"#stores-body", st.Pos(), "edge-cutset", w,
				"body stored only behind hash equality between this request and the supplied hash",
				"a block body is stored into a request without a hash-equality test against that request: unrequested blocks must be ignored")
		}
	}
	c.Min("R3", "stores of requestedBlock.block", nBody, 1)

	// ---- R4: NextBlock pops the head
	if fn := c.Fn("R4", "state.(*State).NextBlock"); fn != nil {
		head := func(v ssa.Value, f *types.Var) bool {
			// v derives from (*(&blocksRequested))[0].f
			for _, r := range rootsAll(v) {
				ia, ok := r.(*ssa.IndexAddr)
				if !ok {
					continue
				}
				if k, ok := constInt(ia.Index); !ok || k != 0 {
					continue
				}
				if loadOfField(ia.X, a.blocksRequested) == nil {
					continue
				}
				if f == nil {
					return true
				}
			}
			return false
		}
		_ = head
		for _, st := range storesToField(fn, a.blocksRequested) {
			sl, ok := st.Val.(*ssa.Slice)
			good := ok && loadOfField(sl.X, a.blocksRequested) != nil && sl.High == nil
			if good {
				k, isC := constInt(sl.Low)
				good = isC && k == 1
			}
			c.Decide(good, "R4", "state.(*State).NextBlock#reslice-from-1", st.Pos(), "provenance", nil,
				"queue is resliced [1:]", "the pop does not remove exactly the head element (expected blocksRequested[1:])")
			nonEmpty := anyEdge(
				lowerBoundEdge(func(v ssa.Value) bool { return lenOfField(v, a.blocksRequested) }, 1),
				func(iff *ssa.If, br int) bool {
					r, ok := edgeRel(iff, br)
					if !ok || r.Op != token.NEQ {
						return false
					}
					k, isC := constInt(r.Y)
					return isC && k == 0 && lenOfField(r.X, a.blocksRequested)
				})
			ok1, w1 := mustPass(st, nonEmpty)
			c.Decide(ok1, "R4", "state.(*State).NextBlock#guard-nonempty", st.Pos(), "edge-cutset", w1,
				"pop guarded by non-empty queue", "pop reachable with an empty queue")
			filled := nilEdge(func(v ssa.Value) bool {
				return anyFieldLoad(v) == a.rbBlock && headElem(v, a.blocksRequested)
			}, false)
			ok2, w2 := mustPass(st, filled)
			c.Decide(ok2, "R4", "state.(*State).NextBlock#guard-head-filled", st.Pos(), "edge-cutset", w2,
				"pop guarded by blocksRequested[0].block != nil", "pop reachable while the head request has no body: blocks must be processed strictly in request order")
		}
		for _, st := range storesToField(fn, a.lastSavedHash) {
			ok := mentionsField(st.Val, a.rbHash) && headElem(st.Val, a.blocksRequested)
			c.Decide(ok, "R4", "state.(*State).NextBlock#lastSavedHash-from-head", st.Pos(), "provenance", nil,
				"lastSavedHash taken from blocksRequested[0].hash", "lastSavedHash is not taken from the popped head element")
		}
		for _, st := range storesToField(fn, a.pendingBlockSize) {
			b, isBin := st.Val.(*ssa.BinOp)
			ok := isBin && b.Op == token.SUB && mentionsField(b.Y, a.rbSize) && headElem(b.Y, a.blocksRequested)
			c.Decide(ok, "R4", "state.(*State).NextBlock#size-from-head", st.Pos(), "provenance", nil,
				"pendingBlockSize reduced by blocksRequested[0].size", "pendingBlockSize is not reduced by the popped head element's size")
		}
		nret := 0
		for _, ret := range returnsOf(fn) {
			for _, v := range resultValues(ret, 0) {
				if cst, ok := v.(*ssa.Const); ok && cst.IsNil() {
					continue
				}
				nret++
				ok := mentionsField(v, a.rbBlock) && headElem(v, a.blocksRequested)
				c.Decide(ok, "R4", "state.(*State).NextBlock#returns-head-body", ret.Pos(), "provenance", nil,
					"returned body is blocksRequested[0].block", "the returned block is not the head element's body")
			}
		}
		c.Min("R4", "non-nil returns of NextBlock", nret, 1)
	}

	// ---- R5: linkage on enqueue (shared with C02.R4)
	c.ruleEnqueueLinkage("R5", a)

	// ---- R9 / R10 (added after seeded round 3)
	c.ruleToRequestEmptied("R9", a)
	c.ruleSizeCoupledWithCounter("R10", a)
	c.rulePendingForkGuardOnParent("R7")
	c.ruleRequestOnlyIfUnknownEverywhere("R11")
	c.ruleTruncationKeepsForkPoint("R13")
	c.rulePopMovesLastSavedHash("R14")
	c.ruleLastHashGuards("R15")
	c.ruleSavedHashMovesOnlyWithPop("R16")
	c.ruleBlockFiledUnderOwnHash("R17")
	c.ruleRequestFilledWhereFound("R18")
	c.ruleSizesSubtractedBeforeCut("R19")
	c.ruleMembershipByHashOnly("R20")
	c.ruleProcessedBlockIsPoppedBlock("R23")
	c.ruleGetterConsultsPrimary("R21", "state.(*State).BlockIsToBeRequested", "blocksToRequest")
	c.ruleGetterConsultsPrimary("R21", "state.(*State).BlockIsRequested", "blocksRequested")
	c.whoMayCall("R22", "(*state.State).AddBlockRequest", map[string]string{"handlers.(*HeadersHandler).Handle": "announced headers"}, 3)
	c.ruleFilledRequestsGoOut("R12", "handlers.(*HeadersHandler).Handle", "spynode.(*Node).processBlocks")
	c.ruleRemovedRangeIsCountedRange("R2", a.blocksRequested, a.pendingBlockSize)

	// ---- R6: lockset for State
	c.lockset("R6", "state", "State", "lock", c.structFields("state", "State", "lock"), []string{"state"}, nil, 60)

	// ---- R7: pending fork handling in HeadersHandler.Handle
	if fn := c.Fn("R7", "handlers.(*HeadersHandler).Handle"); fn != nil {
		clears := callsTo(fn, "(*state.State).ClearBlockRequestsAfter")
		adds := callsTo(fn, "(*state.State).AddBlockRequest")
		var addI []ssa.Instruction
		for _, s := range adds {
			addI = append(addI, s.Instr)
		}
		for _, s := range clears {
			guard := callEdge(true, -1, nil, "(*state.State).BlockIsRequested", "(*state.State).BlockIsToBeRequested")
			ok, w := mustPass(s.Instr, guard)
			c.Decide(ok, "R7", "handlers.(*HeadersHandler).Handle#clear-after-guarded", s.Pos(), "edge-cutset", w,
				"ClearBlockRequestsAfter only when the parent is a pending request", "ClearBlockRequestsAfter reachable without the parent being a requested/to-be-requested block")
			ok2, w2 := alwaysFollowedBy(s.Instr, addI, true, nil)
			c.Decide(ok2, "R7", "handlers.(*HeadersHandler).Handle#clear-then-enqueue", s.Pos(), "path-typestate", w2,
				"new branch is enqueued after the clear in the same iteration", "after discarding requests beyond the fork point the new branch's header is not enqueued on some path")
		}
		c.Min("R7", "ClearBlockRequestsAfter calls in Handle", len(clears), 1)
	}

	// ---- R8: block getdata items derive from admitted hashes
	n8 := 0
	for _, fn := range c.P.FuncsIn("spynode", "handlers") {
		for _, s := range callsTo(fn, "wire.NewInvVect") {
			args := s.Args()
			if len(args) != 2 {
				continue
			}
			k, isC := constInt(args[0])
			if !isC || k != invTypeBlock(c) {
				continue
			}
			n8++
			c.Touch(fn)
			h := args[1]
			key := fmt.Sprintf("%s#block-getdata", c.P.Key(fn))
			if derivesFromCall(h, "(*state.State).GetNextBlockToRequest") != nil {
				c.Ok("R8", key, s.Pos(), "provenance", "hash is the result of GetNextBlockToRequest")
				continue
			}
			if derivesFromCall(h, "(*handlers.BlockRefeeder).GetBlockToRequest") != nil {
				c.Ok("R8", key, s.Pos(), "provenance", "frozen exception: BlockRefeeder.GetBlockToRequest re-downloads an already processed block for RefeedBlocksFromHeight, outside the window by design")
				continue
			}
			found := false
			var wit []string
			for _, ad := range callsTo(fn, "(*state.State).AddBlockRequest") {
				aa := ad.Args()
				if len(aa) != 2 || aa[1] != h {
					continue
				}
				call := ad.Value()
				g := condEdge(func(cd Cond) (bool, bool) {
					if cd.Call == call && cd.Idx == 0 {
						return true, true
					}
					return false, false
				})
				ok, w := mustPass(s.Instr, g)
				if ok {
					found = true
					break
				}
				wit = w
			}
			c.Decide(found, "R8", key, s.Pos(), "edge-cutset+provenance", wit,
				"item built only on the send==true edge of AddBlockRequest for the same hash",
				"a block getdata item is built for a hash that was not admitted by the request window (no AddBlockRequest(...)==true edge for this hash, not from GetNextBlockToRequest)")
		}
	}
	c.Min("R8", "NewInvVect(InvTypeBlock, …) sites", n8, 5)
}

func invTypeBlock(c *Check) int64 {
	// resolve wire.InvTypeBlock from the dependency's constants
	for _, p := range c.P.ByRel["handlers"].Imports {
		if p.PkgPath == "github.com/tokenized/pkg/wire" {
			if o, ok := p.Types.Scope().Lookup("InvTypeBlock").(*types.Const); ok {
				if v, ok := constantInt(o); ok {
					return v
				}
			}
		}
	}
	return 2
}

func derivesFromAnyParam(v ssa.Value, fn *ssa.Function) bool {
	for i := range fn.Params {
		if i == 0 && fn.Signature.Recv() != nil {
			continue
		}
		if derivesFromParam(v, fn, i) {
			return true
		}
	}
	return false
}

// headElem: v's slice passes through (*(&x.f))[0].
func headElem(v ssa.Value, f *types.Var) bool {
	for _, r := range rootsAll(v) {
		if ia, ok := r.(*ssa.IndexAddr); ok {
			if k, ok := constInt(ia.Index); ok && k == 0 && loadOfField(ia.X, f) != nil {
				return true
			}
		}
	}
	return false
}

// lastElem: v's slice passes through (*(&x.f))[len(*(&x.f))-1].
func lastElem(v ssa.Value, f *types.Var) bool {
	for _, r := range rootsAll(v) {
		if ia, ok := r.(*ssa.IndexAddr); ok && loadOfField(ia.X, f) != nil {
			if b, ok := ia.Index.(*ssa.BinOp); ok && b.Op == token.SUB {
				if k, ok := constInt(b.Y); ok && k == 1 && lenOfField(b.X, f) {
					return true
				}
			}
		}
	}
	return false
}

// rootsAll returns every value visited by the backward slice of v.
func rootsAll(v ssa.Value) []ssa.Value {
	rs := &rootSet{seen: map[ssa.Value]bool{}}
	rs.walk(v, 0)
	var out []ssa.Value
	for x := range rs.seen {
		out = append(out, x)
	}
	return out
}

// ruleEnqueueLinkage: every enqueue in AddBlockRequest is guarded by parent-hash equality with the
// matching "last" hash of the three-way cascade.
func (c *Check) ruleEnqueueLinkage(rule string, a *stateAnchors) {
	fn := c.Fn(rule, "state.(*State).AddBlockRequest")
	if fn == nil {
		return
	}
	prev := paramNamed(fn, "prevHash")
	if prev == nil && len(fn.Params) >= 2 {
		prev = fn.Params[1]
	}
	if prev == nil {
		c.Undecided(rule, "anchor:AddBlockRequest.prevHash", fn.Pos(), "parent-hash parameter not found")
		return
	}
	n := 0
	for _, f := range []*types.Var{a.blocksToRequest, a.blocksRequested} {
		for _, st := range storesToField(fn, f) {
			n++
			appendToNonEmptyToRequest := f == a.blocksToRequest && isAppendStore(st, f)
			g := equalEdge(func(x, y ssa.Value) bool {
				if !derivesFromValue(y, prev) {
					return false
				}
				if appendToNonEmptyToRequest {
					return lastElem(x, a.blocksToRequest)
				}
				return (mentionsField(x, a.rbHash) && lastElem(x, a.blocksRequested)) || fieldAddrOf(x) == a.lastSavedHash
			}, true)
			ok, w := mustPass(st, g)
			if !ok && c.lastHashHelperOK(a) {
				// the same comparison through the State.lastHash helper (checked separately below)
				g2 := equalEdge(func(x, y ssa.Value) bool {
					return (derivesFromValue(y, prev) && derivesFromCall(x, "(*state.State).lastHash") != nil) ||
						(derivesFromValue(x, prev) && derivesFromCall(y, "(*state.State).lastHash") != nil)
				}, true)
				ok, w = mustPass(st, g2)
			}
			which := "blocksRequested"
			if f == a.blocksToRequest {
				which = "blocksToRequest"
				if !appendToNonEmptyToRequest {
					which = "blocksToRequest(first)"
				}
			}
			c.Decide(ok, rule, "state.(*State).AddBlockRequest#enqueue-"+which+"-linked", st.Pos(), "edge-cutset+provenance", w,
				"enqueue reachable only through prevHash == last queued/requested/saved hash",
				"a header is enqueued on a path that does not establish that its parent is the last queued / requested / saved hash")
		}
	}
	c.Min(rule, "enqueue stores in AddBlockRequest", n, 3)
}

// lastHashHelperOK: State.lastHash answers the last to-be-requested hash if that queue is non-empty,
// else the last requested hash if that queue is non-empty, else the last saved hash.
func (c *Check) lastHashHelperOK(a *stateAnchors) bool {
	fn := c.P.Fn("state.(*State).lastHash")
	if fn == nil {
		return false
	}
	nonEmpty := func(f *types.Var) EdgePred {
		return lowerBoundEdge(func(v ssa.Value) bool { return lenOfField(v, f) }, 1)
	}
	empty := func(f *types.Var) EdgePred {
		return upperBoundEdge(func(v ssa.Value) bool { return lenOfField(v, f) }, 0)
	}
	seen := 0
	for _, ret := range returnsOf(fn) {
		for _, v := range resultValues(ret, 0) {
			switch {
			case lastElem(v, a.blocksToRequest):
				if ok, _ := mustPass(ret, nonEmpty(a.blocksToRequest)); !ok {
					return false
				}
				seen |= 1
			case mentionsField(v, a.rbHash) && lastElem(v, a.blocksRequested):
				ok1, _ := mustPass(ret, nonEmpty(a.blocksRequested))
				ok2, _ := mustPass(ret, empty(a.blocksToRequest))
				if !ok1 || !ok2 {
					return false
				}
				seen |= 2
			case fieldAddrOf(v) == a.lastSavedHash:
				ok1, _ := mustPass(ret, empty(a.blocksRequested))
				ok2, _ := mustPass(ret, empty(a.blocksToRequest))
				if !ok1 || !ok2 {
					return false
				}
				seen |= 4
			default:
				return false
			}
		}
	}
	return seen == 7
}

func fieldAddrOf(v ssa.Value) *types.Var {
	if fa, ok := v.(*ssa.FieldAddr); ok {
		return fieldOfAddr(fa)
	}
	return anyFieldLoad(v)
}
