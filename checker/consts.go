package main

import "go/constant"

func constantInt64(v constant.Value) (int64, bool) {
	if v == nil || v.Kind() != constant.Int {
		return 0, false
	}
	return constant.Int64Val(v)
}
