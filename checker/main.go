// spycheck: repository-specific static analysis deciding structural necessary conditions of the
// properties in /verif/properties.jsonl for tokenized/spynode. Nothing in /repo is executed.
package main

import (
	"encoding/json"
	"flag"
	"fmt"
	"os"
	"path/filepath"
	"runtime/debug"
	"strconv"
	"time"
)

func main() {
	prop := flag.String("prop", "", "property id (C01..C20)")
	tier := flag.String("tier", "", "quick|thorough (default $VERIF_TIER or quick)")
	repo := flag.String("repo", "/repo", "repository to analyse")
	verif := flag.String("verif", "", "verif directory (default: parent of the binary's dir)")
	replay := flag.String("replay", "", "replay file: re-run the check and report whether that obligation is still violated")
	list := flag.Bool("list", false, "list properties")
	manifest := flag.String("manifest", "", "write MANIFEST.json to this path and exit")
	tags := flag.String("tags", "verif", "build tags used to load /repo (hooks guard)")
	outDir := flag.String("out", "", "evidence directory (default <verif>/evidence)")
	writeLoops := flag.Bool("write-loop-baseline", false, "record per function the number of early-exit collection loops of -repo (checker/baseline_loops.txt) and exit")
	writeBase := flag.Bool("write-baseline", false, "record the functions declared in -repo as the baseline (checker/baseline_funcs.txt) and exit")
	flag.Parse()

	if *manifest != "" {
		if err := writeManifest(*manifest); err != nil {
			fmt.Fprintln(os.Stderr, err)
			os.Exit(2)
		}
		return
	}
	if *list {
		for _, id := range propIDs() {
			fmt.Printf("%s %s\n", id, registry[id].Title)
		}
		return
	}
	if *tier == "" {
		*tier = os.Getenv("VERIF_TIER")
	}
	if *tier != "thorough" {
		*tier = "quick"
	}
	if *verif == "" {
		exe, _ := os.Executable()
		*verif = filepath.Dir(filepath.Dir(exe))
	}
	verifDirGlobal = *verif
	if *writeBase {
		if err := writeBaseline(*repo, *tags, filepath.Join(*verif, "checker", "baseline_funcs.txt")); err != nil {
			fmt.Fprintln(os.Stderr, err)
			os.Exit(2)
		}
		return
	}
	if *writeLoops {
		P, err := Load(*repo, *tags, false, nil)
		if err == nil {
			err = writeLoopBaseline(P, filepath.Join(*verif, "checker", "baseline_loops.txt"))
		}
		if err == nil {
			err = writeParamBaseline(P, filepath.Join(*verif, "checker", "baseline_params.txt"))
		}
		if err == nil {
			err = writeSwallowBaseline(P, filepath.Join(*verif, "checker", "baseline_swallow.txt"))
		}
		if err == nil {
			err = writeFreshErrBaseline(P, filepath.Join(*verif, "checker", "baseline_fresherr.txt"))
		}
		if err == nil {
			err = writeAccessBaseline(P, filepath.Join(*verif, "checker", "baseline_access.txt"))
		}
		if err != nil {
			fmt.Fprintln(os.Stderr, err)
			os.Exit(2)
		}
		return
	}
	seed := 0
	if s := os.Getenv("VERIF_SEED"); s != "" {
		seed, _ = strconv.Atoi(s)
	}
	var replayOb *Ob
	if *replay != "" {
		b, err := os.ReadFile(*replay)
		if err != nil {
			fmt.Fprintln(os.Stderr, err)
			os.Exit(2)
		}
		var r struct {
			Property   string `json:"property"`
			Obligation Ob     `json:"obligation"`
		}
		if err := json.Unmarshal(b, &r); err != nil {
			fmt.Fprintln(os.Stderr, err)
			os.Exit(2)
		}
		*prop = r.Property
		replayOb = &r.Obligation
	}
	if *outDir == "" {
		*outDir = filepath.Join(*verif, "evidence")
	}
	evidenceDir = *outDir
	if *prop == "all" {
		os.Exit(runAll(*tier, *repo, *verif, *tags, seed))
	}
	def := registry[*prop]
	if def == nil {
		fmt.Fprintf(os.Stderr, "unknown property %q (use -list)\n", *prop)
		os.Exit(2)
	}
	os.Exit(run(def, *tier, *repo, *verif, *tags, seed, replayOb))
}

func run(def *PropDef, tier, repo, verif, tags string, seed int, replayOb *Ob) (code int) {
	start := time.Now()
	defer func() {
		if r := recover(); r != nil {
			fmt.Fprintf(os.Stderr, "checker panic (no verdict): %v\n%s\n", r, debug.Stack())
			code = 2
		}
	}()
	known, err := loadKnown(filepath.Join(verif, "known_findings.json"))
	if err != nil {
		fmt.Fprintln(os.Stderr, err)
		return 2
	}
	P, err := Load(repo, tags, false, nil)
	if err != nil {
		fmt.Fprintf(os.Stderr, "UNDECIDED property=%s load: %v\n", def.ID, err)
		return 2
	}
	c := newCheck(P, def.ID, tier)
	runProperty(def, c)
	extra := map[string]interface{}{}
	if tier == "thorough" {
		thorough(def, c, repo, verif, tags, extra)
	}
	if replayOb != nil {
		for _, o := range c.Obs {
			if o.Rule == replayOb.Rule && o.Key == replayOb.Key {
				fmt.Printf("replay %s %s: %s at %s: %s\n", o.Rule, o.Key, o.Status, o.Pos, o.Detail)
				if o.Status == stViolated {
					fmt.Printf("VIOLATION property=%s replay=%s\n", def.ID, "(replayed)")
					return 1
				}
				return 0
			}
		}
		fmt.Printf("replay: obligation %s %s no longer exists in the current tree\n", replayOb.Rule, replayOb.Key)
		return 0
	}
	return c.finish(def, known, evidenceDir, time.Since(start).Seconds(), seed, extra)
}

var evidenceDir string

// runAll analyses the tree once and runs every property's rules (used for mutant sweeps).
func runAll(tier, repo, verif, tags string, seed int) (code int) {
	known, err := loadKnown(filepath.Join(verif, "known_findings.json"))
	if err != nil {
		fmt.Fprintln(os.Stderr, err)
		return 2
	}
	P, err := Load(repo, tags, false, nil)
	if err != nil {
		fmt.Fprintf(os.Stderr, "UNDECIDED load: %v\n", err)
		return 2
	}
	for _, id := range propIDs() {
		def := registry[id]
		func() {
			start := time.Now()
			defer func() {
				if r := recover(); r != nil {
					fmt.Fprintf(os.Stderr, "checker panic in %s: %v\n%s\n", id, r, debug.Stack())
					if code < 2 {
						code = 2
					}
				}
			}()
			c := newCheck(P, id, tier)
			runProperty(def, c)
			rc := c.finish(def, known, evidenceDir, time.Since(start).Seconds(), seed, map[string]interface{}{})
			if rc > code {
				code = rc
			}
		}()
	}
	return code
}
