package main

import (
	"encoding/json"
	"fmt"
	"os"
	"os/exec"
	"path/filepath"
	"regexp"
	"sort"
	"strings"
	"sync"
)

// Positive controls (thorough tier). A static rule that matches nothing passes vacuously forever, so
// the thorough tier re-checks the checker's sensitivity on the tree it is judging: every recorded
// property-breaking change for this property (independently seeded changes under seeded/, my own
// catalogue under mutants/catalogue/) is applied to a scratch copy of the current working tree and
// the property's rules are run on that copy in a subprocess. The control is "killed" if a rule
// reports a violation there that it does not report on the tree itself.
//
// Controls never change the verdict about /repo: a patch that no longer applies (the tree moved) is
// skipped, a control that is not killed is listed in the evidence and printed as a warning.
// Scratch copies live under os.TempDir() and are removed as soon as their run is over.

type control struct {
	ID      string   `json:"id"`
	Origin  string   `json:"origin"`
	Patch   string   `json:"-"`
	Expect  []string `json:"expected_rules,omitempty"`
	Result  string   `json:"result"` // killed | killed-by-other-property | not-killed | skipped-no-apply | error
	FiredBy []string `json:"fired,omitempty"`
}

var violLine = regexp.MustCompile(`^\s+(C\d\d\.R\w+) (\S+) at `)

func collectControls(verif, prop string) []control {
	var out []control
	// independently seeded changes
	dirs, _ := filepath.Glob(filepath.Join(verif, "seeded", "*"))
	for _, d := range dirs {
		b, err := os.ReadFile(filepath.Join(d, "meta.json"))
		if err != nil {
			continue
		}
		var m struct {
			Property   string   `json:"property"`
			DetectedBy []string `json:"detected_by"`
		}
		if json.Unmarshal(b, &m) != nil {
			continue
		}
		mine := m.Property == prop
		var exp []string
		for _, x := range m.DetectedBy {
			r := strings.Fields(x)
			if len(r) > 0 {
				exp = append(exp, r[0])
				if strings.HasPrefix(r[0], prop+".") {
					mine = true
				}
			}
		}
		if !mine {
			continue
		}
		out = append(out, control{ID: "seeded/" + filepath.Base(d), Origin: "independent sub-agent", Patch: filepath.Join(d, "patch.diff"), Expect: exp})
	}
	// own catalogue
	dirs, _ = filepath.Glob(filepath.Join(verif, "mutants", "catalogue", "*"))
	for _, d := range dirs {
		b, err := os.ReadFile(filepath.Join(d, "meta.json"))
		if err != nil {
			continue
		}
		var m struct {
			Property string `json:"property"`
			Expect   string `json:"expect"`
		}
		if json.Unmarshal(b, &m) != nil || m.Property != prop {
			continue
		}
		out = append(out, control{ID: "catalogue/" + filepath.Base(d), Origin: "own catalogue", Patch: filepath.Join(d, "patch.diff"), Expect: []string{m.Expect}})
	}
	sort.Slice(out, func(i, j int) bool { return out[i].ID < out[j].ID })
	return out
}

func runControls(def *PropDef, c *Check, repo, verif, tags string, extra map[string]interface{}) {
	ctl := collectControls(verif, def.ID)
	if len(ctl) == 0 {
		extra["controls"] = "none recorded for this property"
		return
	}
	exe, err := os.Executable()
	if err != nil {
		extra["controls"] = "cannot locate own binary: " + err.Error()
		return
	}
	// violations of the tree itself (these do not count as kills)
	base := map[string]bool{}
	for _, o := range c.Obs {
		if o.Status == stViolated {
			base[o.Rule+" "+o.Key] = true
		}
	}
	sem := make(chan struct{}, 6)
	var wg sync.WaitGroup
	for i := range ctl {
		wg.Add(1)
		go func(k *control) {
			defer wg.Done()
			sem <- struct{}{}
			defer func() { <-sem }()
			runControl(k, exe, def.ID, repo, verif, tags, base)
		}(&ctl[i])
	}
	wg.Wait()
	applied, killed, other, missed, skipped := 0, 0, 0, 0, 0
	for _, k := range ctl {
		switch k.Result {
		case "killed":
			applied++
			killed++
		case "killed-by-other-property":
			applied++
			other++
		case "not-killed":
			applied++
			missed++
			fmt.Printf("WARNING control %s applied to a copy of the tree but no rule reported it\n", k.ID)
		default:
			skipped++
		}
	}
	extra["controls"] = ctl
	extra["controls_summary"] = fmt.Sprintf("%d recorded, %d applied to a scratch copy of the current tree, %d reported by this property's rules, %d only by another property's rules, %d not reported, %d skipped (patch does not apply to the current tree)",
		len(ctl), applied, killed, other, missed, skipped)
	extra["controls_applied"] = applied
	extra["controls_killed"] = killed + other
}

func runControl(k *control, exe, prop, repo, verif, tags string, base map[string]bool) {
	tmp, err := os.MkdirTemp("", "spyctl-")
	if err != nil {
		k.Result = "error"
		return
	}
	defer os.RemoveAll(tmp)
	tree := filepath.Join(tmp, "tree")
	if out, err := exec.Command("rsync", "-a", "--exclude", ".git", "--exclude", "tmp", repo+"/", tree+"/").CombinedOutput(); err != nil {
		k.Result = "error"
		k.FiredBy = []string{"copy failed: " + strings.TrimSpace(string(out))}
		return
	}
	ap := exec.Command("git", "apply", "--whitespace=nowarn", k.Patch)
	ap.Dir = tree
	ap.Env = append(os.Environ(), "GIT_CEILING_DIRECTORIES="+tmp, "GIT_DIR=/nonexistent")
	if err := ap.Run(); err != nil {
		ap2 := exec.Command("patch", "-p1", "-s", "--no-backup-if-mismatch", "-i", k.Patch)
		ap2.Dir = tree
		if err2 := ap2.Run(); err2 != nil {
			k.Result = "skipped-no-apply"
			return
		}
	}
	cmd := exec.Command(exe, "-verif", verif, "-repo", tree, "-prop", "all", "-tier", "quick", "-tags", tags, "-out", filepath.Join(tmp, "ev"))
	cmd.Env = append(os.Environ(), "GOFLAGS=-mod=mod", "GOPROXY=off", "GOSUMDB=off", "GOWORK=off")
	out, _ := cmd.CombinedOutput()
	mine, others := []string{}, []string{}
	for _, ln := range strings.Split(string(out), "\n") {
		m := violLine.FindStringSubmatch(ln)
		if m == nil || base[m[1]+" "+m[2]] {
			continue
		}
		if strings.HasPrefix(m[1], prop+".") {
			mine = append(mine, m[1]+" "+m[2])
		} else {
			others = append(others, m[1]+" "+m[2])
		}
	}
	switch {
	case len(mine) > 0:
		k.Result = "killed"
		k.FiredBy = mine
	case len(others) > 0:
		k.Result = "killed-by-other-property"
		k.FiredBy = others
	default:
		k.Result = "not-killed"
		if strings.Contains(string(out), "UNDECIDED") || strings.Contains(string(out), "panic") {
			// a copy that no longer type-checks or loses an anchor is no verdict either way
			k.Result = "error"
			k.FiredBy = []string{"checker gave no verdict on the copy"}
		}
	}
}
