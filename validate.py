#!/usr/bin/env python3
# validates MANIFEST.json and evidence/*.json against the schemas (run with python3-vt)
import json, glob, sys, jsonschema
m = json.load(open('/verif/MANIFEST.json')); s = json.load(open('/root/.vp/MANIFEST.schema.json'))
jsonschema.validate(m, s)
print('manifest ok: %d checks, %d not_applicable' % (len(m['checks']), len(m.get('not_applicable', []))))
es = json.load(open('/root/.vp/EVIDENCE.schema.json'))
for f in sorted(glob.glob('/verif/evidence/C*.json')):
    jsonschema.validate(json.load(open(f)), es)
    print('evidence ok:', f)
