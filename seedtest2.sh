#!/bin/sh
# usage: seedtest2.sh <patch.diff> [spycheck binary]
# Development variant of seedtest.sh: applies the change to a scratch COPY of /repo's working tree
# (never to /repo), runs every property's rules on the copy, removes the copy. Safe to run in parallel.
P="$(realpath "$1")"; BIN="${SPYCHECK_BIN:-${2:-/verif/bin/spycheck}}"; VD="${VERIF_DIR:-/verif}"
T=$(mktemp -d /tmp/seed2.XXXXXX)
rsync -a --exclude .git /repo/ "$T/tree/"
cd "$T/tree" || exit 2
if GIT_DIR=/nonexistent git apply --whitespace=nowarn "$P" 2>/dev/null || patch -p1 -s --no-backup-if-mismatch -i "$P" >/dev/null 2>&1; then echo "APPLY=ok"; else echo "APPLY=failed"; rm -rf "$T"; exit 3; fi
export GOFLAGS=-mod=mod GOPROXY=off GOSUMDB=off GOTOOLCHAIN=local GOWORK=off
"$BIN" -verif "$VD" -repo "$T/tree" -prop all -out "$T/ev" 2>&1 | grep -E "^(VIOLATION|UNDECIDED|  C[0-9][0-9]\.[RE]|checker panic)" | cut -c1-300
cd /; rm -rf "$T"
