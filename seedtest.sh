#!/bin/sh
# usage: seedtest.sh <patch.diff> : applies a seeded change to /repo, runs every check, reverts.
# Prints: APPLY=ok|failed and the violations found. Never leaves /repo modified.
P="$1"
cd /repo || exit 2
if [ -n "$(git status --porcelain)" ]; then echo "repo dirty, abort"; exit 2; fi
if git apply --check "$P" 2>/dev/null; then git apply "$P"; 
elif git apply --3way "$P" >/dev/null 2>&1 && [ -z "$(git diff --name-only --diff-filter=U)" ]; then git reset -q; 
elif patch -p1 --fuzz=3 -s --no-backup-if-mismatch < "$P" >/dev/null 2>&1; then :; 
else git reset -q --hard HEAD; echo "APPLY=failed"; exit 3; fi
echo "APPLY=ok ($(git diff --stat | tail -1))"
export GOFLAGS=-mod=mod GOPROXY=off GOSUMDB=off GOTOOLCHAIN=local GOWORK=off
if ! go build ./... 2>/tmp/seed-build.log; then echo "BUILD=failed"; head -5 /tmp/seed-build.log; fi
OUT=$(mktemp -d)
/verif/bin/spycheck -verif /verif -repo /repo -prop all -out "$OUT" 2>&1 | grep -E "^(VIOLATION|UNDECIDED|  C[0-9][0-9]\.[RE]|checker panic)" | cut -c1-300
rm -rf "$OUT"
git reset -q --hard HEAD
git status --porcelain | grep -v "^??" | head -3
