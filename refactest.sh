#!/bin/sh
# usage: refactest.sh : runs every property's rules on scratch copies with each recorded
# behaviour-preserving refactoring applied (in parallel). Every line printed with a rule or
# UNDECIDED is a false alarm of the machinery.
ls -d /verif/refactorings/*/ 2>/dev/null | xargs -P 10 -I{} sh -c 'echo "== {} $(/verif/seedtest2.sh {}patch.diff 2>&1 | grep -E "^(APPLY=failed|  C|UNDECIDED|checker)" | sed "s/ at .*//" | sort -u | tr "\n" ";" | cut -c1-600)"' | sort
