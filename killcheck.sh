#!/bin/sh
# usage: killcheck.sh : runs every recorded property-breaking change (seeded/, /tmp/out2-*, mutants/catalogue)
# on scratch copies in parallel and lists those that NO rule reports (must stay empty).
ls -d /verif/seeded/*/ /verif/mutants/catalogue/*/ 2>/dev/null | xargs -P 10 -I{} sh -c 'r=$(/verif/seedtest2.sh {}patch.diff 2>&1 | grep -c "^VIOLATION"); echo "$r {}"' | sort -n | awk '$1==0{print "MISSED " $2} {n++} END{print n " changes checked"}'
