#!/usr/bin/env python3
import json,sys
e=json.load(open('/verif/evidence/%s.json'%sys.argv[1]))
flt = sys.argv[2] if len(sys.argv)>2 else ''
for o in e['coverage']['all_obligations']:
    if flt and flt not in o['rule']+o['status']: continue
    print(o['status'][:4], o['rule'], o['key'], o.get('pos'), '|', o['detail'][:110])
for n in e['coverage']['instance_counts']: print('  count:',n)
