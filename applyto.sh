#!/bin/sh
# usage: applyto.sh <patch> <dir> : scratch copy of /repo with the patch applied
rm -rf "$2"; rsync -a --exclude .git /repo/ "$2/"; cd "$2" && (GIT_DIR=/nonexistent git apply --whitespace=nowarn "$1" 2>/dev/null || patch -p1 -s --no-backup-if-mismatch -i "$1")
