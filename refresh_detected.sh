#!/bin/sh
# usage: refresh_detected.sh [glob of seeded dirs] : re-runs every recorded change on a scratch copy with the current
# checker and rewrites "detected_by" in its meta.json (confirmation fields are left as they are).
cd /verif
ls -d ${1:-/verif/seeded/*/} | xargs -P 8 -I{} sh -c 'det=$(/verif/seedtest2.sh {}patch.diff 2>&1 | grep -E "^  C[0-9]+\.[RE]" | sed "s/ at .*//" | sed "s/^  //" | sort -u | tr "\n" ";"); python3 - "{}" "$det" <<PY
import json,sys
d,det=sys.argv[1],sys.argv[2]
p=d+"meta.json"
try:
    m=json.load(open(p))
except Exception:
    sys.exit(0)
m["detected_by"]=[x for x in det.split(";") if x]
json.dump(m,open(p,"w"),indent=1)
print(d, len(m["detected_by"]))
PY'
